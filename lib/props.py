"""Per-property configuration of the checks: harness binary, phases per tier, non-trivial rule."""

PROPS = {}
NOT_APPLICABLE = {}
NOTES = ("All checks are generated-input search (rapidcheck over tape-decoded generators, bounded-exhaustive enumeration of small "
         "sub-spaces, libFuzzer in thorough tiers) against explicit oracles; see DESIGN.md. Every check rebuilds /repo's working tree "
         "(ASan+UBSan, -D_GLIBCXX_ASSERTIONS, -DTHEO_VERIF) keyed by a content hash.")
ENGINES = {
    "p_sem": "rapidcheck tape-decoded typed program generator vs reference interpreter (final state, stepping trace, frame accounting, value range)",
    "p_scan": "rapidcheck tape generator + exhaustive enumerators vs reference lexer / include resolver",
}


def rc(workers, cases, max_size=100, **kw):
    d = dict(kind="rc", workers=workers, cases=cases, max_size=max_size)
    d.update(kw)
    return d


def enum(shards):
    return dict(kind="enum", shards=shards)


PROPS["C14"] = dict(
    harness="p_scan",
    phases=dict(quick=[enum(8), rc(8, 3000)], thorough=[enum(16), rc(16, 50000)]),
    rule=("cases: file maps (1-4 files) whose contents are strings over the scanner's significant characters, "
          "concatenated documented spellings and near-misses with/without separators, raw bytes, and include layouts; "
          "plus every string up to the enumerated length over a 12-character alphabet. Oracle: reference maximal-munch "
          "lexer with include splicing (kind, text, file, end line, one final EOF); committed lex.yy.c and a flex-generated "
          "scanner must both agree with it and with each other (output digest). Non-trivial: the reference stream has >=2 "
          "tokens of which one is a keyword/template/punctuation token, or spans >=2 lines, or involves an include; "
          "distinct by content hash of the file map."),
    exhaustive_note=dict(quick="all strings of length <=4 over a 12-character alphabet (5 fixed + 7 rotating with the seed) + spelling table",
                         thorough="all strings of length <=5 over a 12-character alphabet + spelling table"),
    min_nontrivial=dict(quick=5000, thorough=50000),
    assumptions=["the reference lexer was written from the rule list in lexer.l and is itself unverified",
                 "after a malformed include directive only the prefix of the stream and the presence of the error are compared"],
    special="dual_scanner",
    technique="property-based testing: bounded-exhaustive strings + rapidcheck-generated file maps vs a reference maximal-munch lexer; differential committed vs flex-generated scanner",
    level_text=("Exploration: every string up to length 4/5 over the scanner's significant characters (exhaustive sub-space) and tens of "
                "thousands of generated file maps are tokenised by the implementation and by an independent reference lexer and compared "
                "token by token; both scanner build configurations are run on identical inputs. No absence proof beyond the enumerated space."),
    level_note="trusted: the reference lexer (harness/ref/ref_lexer.hpp), flex 2.6.4 for the generated configuration, sanitizer runtimes",
)

PROPS["C15"] = dict(
    harness="p_scan",
    phases=dict(quick=[enum(8), rc(8, 1500)], thorough=[enum(16), rc(16, 20000)]),
    rule=("cases: every include graph over <=3 (quick) / <=4 (thorough) files with <=2 include directives per file, targets "
          "= any file, itself, an absent name or no quoted name, main present/absent; plus random graphs up to 8 files x 4 "
          "directives. Oracle: reference recursive include resolver with an active stack: token stream, multiset of "
          "(error type, file, line range), file requests of compile() as a set. Non-trivial: the graph has a cycle, a "
          "missing target/main or a file included more than once; distinct by content hash."),
    exhaustive_note=dict(quick="all include graphs over 1..3 files x <=2 directives x main present/absent",
                         thorough="all include graphs over 1..4 files x <=2 directives x main present/absent"),
    min_nontrivial=dict(quick=2000, thorough=20000),
    assumptions=["compile() is applied to a deterministic 1/97 sample of the enumerated graphs and to 1/3 of the random ones (it is ~100x the cost of scan)",
                 "duplicates and order of file requests are not asserted (the property says 'exactly those names')"],
    technique="property-based testing: bounded-exhaustive include graphs + rapidcheck random graphs vs a reference include resolver",
    level_text=("Exploration with an exhaustive sub-space: all include graphs over up to 3 (quick) / 4 (thorough) files with up to two "
                "directives each are scanned and compared with a reference resolver (token stream, error multiset, file requests); "
                "larger graphs are sampled randomly. Termination is observed as return under a hang guard."),
    level_note="trusted: reference resolver (harness/ref/ref_lexer.hpp scan_rec), sanitizer runtimes",
)


PROPS["C01"] = dict(
    harness="p_sem",
    phases=dict(quick=[rc(8, 1200), rc(8, 6000, flavour="fast", seed_offset=100)],
                thorough=[rc(16, 15000), rc(16, 150000, flavour="fast", seed_offset=100)]),
    rule=("cases: typed random programs (0-5 program definitions incl. redefinition and OUT=parameter, nested LOOP/WHILE, labels and "
          "forward/backward GOTO / IF-GOTO also into and out of loop bodies, nested calls as arguments, id+int / id-int sugar, a library "
          "of user macros with native meaning: <V>&<V>, <V>*<V>, f(args), IF-THEN-ELSE, SWAP, REPEAT), printed in free layout (all keyword "
          "spellings, comments, glued tokens) and split over up to 4 included files at arbitrary token boundaries. Oracle: independent "
          "reference interpreter over the generator's AST: every user variable of every live activation at the end (also after STOP inside "
          "a callee), divergence checked both ways with proportional budgets. Non-trivial: reference terminated within budget and executed "
          ">=1 loop iteration, call or taken jump; distinct by content hash of the file map."),
    min_nontrivial=dict(quick=3000, thorough=100000),
    assumptions=["LOOP is the sugar c:=x; WHILE c!=0 DO B; c:=c-1 END with a hidden zero-initialised counter per loop and activation (defines jumps into loop bodies)",
                 "executions whose reference values reach 2^31-1 are handed to C20 and discarded here",
                 "the reference interpreter and generator are unverified; macros of the fixed library are interpreted natively, not by expansion"],
    technique="property-based testing: rapidcheck tape-decoded typed program generator, differential against an independent reference interpreter",
    level_text=("Exploration: tens of thousands (thorough: ~10^6) generated whole programs are compiled, run to the end on the VM and compared, "
                "activation by activation and variable by variable, with a naive reference interpreter of the source-level semantics; "
                "non-terminating references must not terminate on the VM within the proportional budget. No absence proof."),
    level_note="trusted: reference interpreter (harness/ref/ref_interp.hpp), generator/printers (harness/common/gen_program.hpp), read-only VM hooks",
)


def run_check(chk, drv):
    cfg = chk.cfg
    binp = drv.build_harness(cfg["harness"], chk.th)
    chk.run_replay_corpus(binp)
    special = cfg.get("special")
    if special == "dual_scanner":
        return dual_scanner(chk, drv, binp)
    bins = {"asan": binp}
    phases = cfg["phases"][chk.tier]
    for ph in phases:
        fl = ph.get("flavour", "asan")
        if fl not in bins:
            bins[fl] = drv.build_harness(cfg["harness"], chk.th, fl)
    # all phases of a tier run concurrently (the machine has 16 cores; workers are single-threaded)
    spawned = []
    for k, ph in enumerate(phases):
        fl = ph.get("flavour", "asan")
        spawned.append(chk.spawn_phase(bins[fl], ph, tagprefix="%s%d-" % (fl, k)))
    for ws in spawned:
        chk.collect_phase(ws)
    return chk.finish()


def dual_scanner(chk, drv, binp):
    """C14: the pre-generated scanner and one generated from lexer.l must behave identically.
    Both binaries run the same seeds; each is compared with the reference lexer, and their
    output digests (hash over every token of every case) must be equal."""
    cfg = chk.cfg
    import filecmp, os
    flexbin = None
    try:
        flexbin = drv.build_harness(cfg["harness"], chk.th, scanner="flex")
    except drv.BuildError as e:
        chk.broken = "flex-generated scanner could not be built: %s" % e
        return chk.finish()
    gen_c = os.path.join(drv.BUILD, chk.th, "asan", "flexgen", "lex.yy.c")
    identical = filecmp.cmp(gen_c, os.path.join(drv.REPO, "Compiler/src/lex.yy.c"), shallow=False)
    chk.extra_cov["generated_scanner_identical_to_committed"] = identical
    for ph in cfg["phases"][chk.tier]:
        a = chk.run_phase(binp, ph, "committed-")
        if chk.violations or chk.broken:
            break
        b = chk.run_phase(flexbin, ph, "flex-")
        if chk.violations or chk.broken:
            break
        da = [s["digest"] for s in a]
        db = [s["digest"] for s in b]
        if da != db:
            chk.violations.append(("scan:config-divergence",
                                   "committed lex.yy.c and the scanner generated from lexer.l produce different token streams "
                                   "on the same generated inputs (digests %s vs %s)" % (da, db),
                                   os.path.join(drv.VERIF, "evidence", "C14.json")))
    return chk.finish()
