"""Per-property configuration of the checks: harness binary, phases per tier, non-trivial rule."""

PROPS = {}
NOT_APPLICABLE = {}
NOTES = ("All checks are generated-input search (rapidcheck over tape-decoded generators, bounded-exhaustive enumeration of small "
         "sub-spaces, libFuzzer in thorough tiers) against explicit oracles; see DESIGN.md. Every check rebuilds /repo's working tree "
         "(ASan+UBSan, -D_GLIBCXX_ASSERTIONS, -DTHEO_VERIF) keyed by a content hash.")
ENGINES = {
    "p_sem": "rapidcheck tape-decoded typed program generator vs reference interpreter (final state, stepping trace, frame accounting, value range)",
    "p_accept": "rapidcheck-generated sources + token-level mutants + exhaustive single-token edits vs reference acceptor",
    "p_code": "rapidcheck-generated programs vs static bytecode verifier / table-inverse invariants with dynamic cross-checks",
    "p_total": "rapidcheck-generated file maps (neighbours, soup, bytes, truncated constructs, broken maps) + exhaustive single-token edits; sanitizers + result-shape invariant",
    "p_dbg": "exhaustive short API histories + rapidcheck histories on generated programs vs an explicit stop/enable model over the recorded uninterrupted run",
    "p_lr": "rapidcheck-generated small grammars x all bounded strings vs a chart-based CFG reference (membership, unique derivation fold, FIRST sets)",
    "p_macro": "rapidcheck-generated macro sets x token streams + exhaustive short streams / patterns vs reference matcher (chart), reference expander and reference LR(1) prefix analysis",
    "p_det": "rapidcheck-generated compile/run sequences: fresh-process differential, multi-threaded differential under ASan and TSan, interleaved VM instances",
    "p_scan": "rapidcheck tape generator + exhaustive enumerators vs reference lexer / include resolver",
}


def rc(workers, cases, max_size=100, **kw):
    d = dict(kind="rc", workers=workers, cases=cases, max_size=max_size)
    d.update(kw)
    return d


def enum(shards):
    return dict(kind="enum", shards=shards)


def fuzz(jobs, seconds, max_len=512, **kw):
    d = dict(kind="fuzz", jobs=jobs, seconds=seconds, max_len=max_len, flavour="fuzz")
    d.update(kw)
    return d


PROPS["C14"] = dict(
    harness="p_scan",
    phases=dict(quick=[enum(8), rc(8, 3000)], thorough=[enum(16), rc(16, 50000)]),
    rule=("cases: file maps (1-4 files) whose contents are strings over the scanner's significant characters, "
          "concatenated documented spellings and near-misses with/without separators, raw bytes, include layouts (one file name agrees with "
          "the main file's up to a NUL byte; 'a' and './a' are two files; files may end in a directive or in a comment without a line break and may start with a byte order mark, '#!', CR LF or NUL), 1/40 of the texts preceded by more than 65535 newlines; "
          "plus every string up to the enumerated length over a 12-character alphabet. Oracle: reference maximal-munch "
          "lexer with include splicing (kind, text, file, end line, one final EOF); committed lex.yy.c and a flex-generated "
          "scanner must both agree with it and with each other (output digest). Non-trivial: the reference stream has >=2 "
          "tokens of which one is a keyword/template/punctuation token, or spans >=2 lines, or involves an include; "
          "distinct by content hash of the file map."),
    exhaustive_note=dict(quick="all strings of length <=4 over a 12-character alphabet (5 fixed + 7 rotating with the seed) + spelling table",
                         thorough="all strings of length <=5 over a 12-character alphabet + spelling table"),
    min_nontrivial=dict(quick=5000, thorough=50000),
    assumptions=["the reference lexer was written from the rule list in lexer.l and is itself unverified",
                 "after a malformed include directive only the prefix of the stream and the presence of the error are compared"],
    special="dual_scanner",
    technique="property-based testing: bounded-exhaustive strings + rapidcheck-generated file maps vs a reference maximal-munch lexer; differential committed vs flex-generated scanner",
    level_text=("Exploration: every string up to length 4/5 over the scanner's significant characters (exhaustive sub-space) and tens of "
                "thousands of generated file maps are tokenised by the implementation and by an independent reference lexer and compared "
                "token by token; both scanner build configurations are run on identical inputs. No absence proof beyond the enumerated space."),
    level_note="trusted: the reference lexer (harness/ref/ref_lexer.hpp), flex 2.6.4 for the generated configuration, sanitizer runtimes",
)

PROPS["C15"] = dict(
    harness="p_scan",
    phases=dict(quick=[enum(8), rc(8, 12000)], thorough=[enum(16), rc(16, 150000)]),
    rule=("cases: every include graph over <=3 (quick) / <=4 (thorough) files with <=2 include directives per file, targets "
          "= any file, itself, an absent name (also the empty name) or no quoted name, main present/absent; plus random graphs up to 8 files x 4 "
          "directives (an eighth with names that agree up to an embedded NUL byte) and include chains of 33-45 files. Oracle: reference recursive include resolver with an active stack: token stream, multiset of "
          "(error type, file, line range), file requests of compile() as a set. Non-trivial: the graph has a cycle, a "
          "missing target/main or a file included more than once; distinct by content hash."),
    exhaustive_note=dict(quick="all include graphs over 1..3 files x <=2 directives x main present/absent",
                         thorough="all include graphs over 1..4 files x <=2 directives x main present/absent"),
    min_nontrivial=dict(quick=2000, thorough=20000),
    assumptions=["compile() is applied to a deterministic 1/97 sample of the enumerated graphs and to 1/3 of the random ones (it is ~100x the cost of scan)",
                 "duplicates and order of file requests are not asserted (the property says 'exactly those names')"],
    technique="property-based testing: bounded-exhaustive include graphs + rapidcheck random graphs vs a reference include resolver",
    level_text=("Exploration with an exhaustive sub-space: all include graphs over up to 3 (quick) / 4 (thorough) files with up to two "
                "directives each are scanned and compared with a reference resolver (token stream, error multiset, file requests); "
                "larger graphs are sampled randomly. Termination is observed as return under a hang guard."),
    level_note="trusted: reference resolver (harness/ref/ref_lexer.hpp scan_rec), sanitizer runtimes",
)


PROPS["C01"] = dict(
    harness="p_sem",
    phases=dict(quick=[rc(8, 1200), rc(8, 6000, flavour="fast", seed_offset=100)],
                thorough=[rc(16, 15000), rc(16, 70000, flavour="fast", seed_offset=100), fuzz(8, 300, max_len=500)]),
    rule=("cases: typed random programs (0-5 program definitions incl. redefinition and OUT=parameter, nested LOOP/WHILE, labels and "
          "forward/backward GOTO / IF-GOTO also into and out of loop bodies, nested calls as arguments, id+int / id-int sugar, a library "
          "of user macros with native meaning: <V>&<V>, <V>*<V> (priorities drawn from pools and optionally swapped, the AST built for the "
          "chosen precedence; a third of the macro cases are rich in mixed expressions), f(args), IF-THEN-ELSE, SWAP, REPEAT), printed in "
          "free layout (all keyword spellings, comments, glued tokens, macro definitions with the body on the next line or sharing "
          "lines) and split over up to 4 included files at arbitrary token boundaries, a quarter with one file included at two places, "
          "file names short, 130 characters long, with unusual characters, agreeing up to an embedded NUL byte, or one name being another plus a "
          "digit; 1/40 of the sources start beyond line 65535; 1/12 of the macro-free programs have a root or callee frame of ~256 registers. Oracle: independent "
          "reference interpreter over the generator's AST: every user variable of every live activation at the end (also after STOP inside "
          "a callee), divergence checked both ways with proportional budgets. Non-trivial: reference terminated within budget and executed "
          ">=1 loop iteration, call or taken jump; distinct by content hash of the file map."),
    min_nontrivial=dict(quick=3000, thorough=100000),
    assumptions=["LOOP is the sugar c:=x; WHILE c!=0 DO B; c:=c-1 END with a hidden zero-initialised counter per loop and activation (defines jumps into loop bodies)",
                 "executions whose reference values reach 2^31-1 are handed to C20 and discarded here",
                 "the reference interpreter and generator are unverified; macros of the fixed library are interpreted natively, not by expansion"],
    technique="property-based testing: rapidcheck tape-decoded typed program generator, differential against an independent reference interpreter",
    level_text=("Exploration: tens of thousands (thorough: ~10^6) generated whole programs are compiled, run to the end on the VM and compared, "
                "activation by activation and variable by variable, with a naive reference interpreter of the source-level semantics; "
                "non-terminating references must not terminate on the VM within the proportional budget. No absence proof."),
    level_note="trusted: reference interpreter (harness/ref/ref_interp.hpp), generator/printers (harness/common/gen_program.hpp), read-only VM hooks",
)


PROPS["C07"] = dict(
    harness="p_sem",
    phases=dict(quick=[rc(8, 800), rc(8, 5000, flavour="fast", seed_offset=100)],
                thorough=[rc(16, 10000), rc(16, 60000, flavour="fast", seed_offset=100)]),
    rule=("cases: typed random programs without user macros (builtin +/- sugar allowed) printed one statement per line (labels on their "
          "statement's line, header and END on own lines), 1-4 files split at line boundaries with nested includes. Oracle: the reference "
          "interpreter emits the expected stop sequence (statement lines before execution, LOOP/WHILE header once per entry, END once per "
          "exit by the loop condition, program END before return, jump to a label stops on the label's line) and is run in lock step with "
          "VM.execute() in stepping mode; at every stop location and the full variable view of every activation are compared. "
          "Non-trivial: >=6 stops including a loop exit and a callee END; distinct by content hash."),
    min_nontrivial=dict(quick=1500, thorough=50000),
    assumptions=["leaving a loop by GOTO does not visit its END line (only exits through the loop condition do)",
                 "when the reference exceeds its step budget or the word range only the prefix of the stop sequence is compared"],
    technique="property-based testing: rapidcheck-generated canonical-layout programs, reference stop-sequence/variable-view model in lock step with the stepping VM",
    level_text=("Exploration: for tens of thousands of generated one-statement-per-line programs every stop of the complete stepping run is "
                "compared (file, line, all activations' variable views) with the sequence a reference interpreter derives from the property text."),
    level_note="trusted: reference interpreter and canonical printer; read-only VM hooks for activation names",
)

PROPS["C19"] = dict(
    harness="p_sem",
    phases=dict(quick=[rc(8, 800), rc(8, 5000, flavour="fast", seed_offset=100)],
                thorough=[rc(16, 10000), rc(16, 50000, flavour="fast", seed_offset=100)]),
    rule=("cases: typed random programs, half of them with a forced call inside a loop, run instruction by instruction (<=30000), a third of them with one reset() at a position drawn from the tape (often inside a "
          "callee), a twelfth with frames of ~256 registers. Oracle "
          "(invariant via read-only hook): after every instruction the frames of the live activations are contiguous in call order from "
          "word 0 and the data memory size equals the sum of their sizes. Non-trivial: run with >=3 returns; distinct by content hash."),
    min_nontrivial=dict(quick=1500, thorough=40000),
    assumptions=["frame layout is observed through the THEO_VERIF accessors verif_frames()/verif_data()"],
    technique="property-based testing: rapidcheck-generated programs, frame-accounting invariant checked after every VM instruction",
    level_text="Exploration: invariant over every instruction boundary of tens of thousands of generated executions with calls in loops.",
    level_note="trusted: read-only VM hooks; generator",
)

PROPS["C20"] = dict(
    harness="p_sem",
    phases=dict(quick=[rc(8, 2500), rc(8, 8000, flavour="fast", seed_offset=100)],
                thorough=[rc(16, 40000), rc(16, 70000, flavour="fast", seed_offset=100)]),
    rule=("cases: (a) typed random programs with constants near 2^31 (largest accepted literal, x+c with large c, helper-program doubling), "
          "run twice instruction by instruction under UBSan; (b) numeric literals of 1-40 digits (within 3 of 2^31-1, values that wrap under 32- or 64-bit conversion: multiples of 2^32, 2^63, 2^64 and multiples, 2^128; "
          "long digit strings) in every literal position: assignment, IF constant, call argument, +/- sugar constant, macro priority, $n. "
          "Oracle: no sanitizer report, every data word in [0, 2^31-1] after every instruction, both runs end identically; literal >= 2^31-1 "
          "<=> compile incorrect with an 'out of range' error. Non-trivial: a run in which the mathematical value of an addition exceeds "
          "2^31-1, or a literal case; distinct by content hash."),
    min_nontrivial=dict(quick=400, thorough=5000),
    assumptions=["for an over-long $n only 'compile incorrect' is asserted (the property names literals and priorities)",
                 "UBSan only sees the ASan/UBSan flavour; the fast flavour checks the value invariants and the literal oracle"],
    technique="property-based testing: rapidcheck-generated big-value programs and boundary literals under UBSan with a word-range invariant and a range-error oracle",
    level_text="Exploration: generated executions near the word boundary with sanitizers as part of the oracle; boundary literals in every position.",
    level_note="trusted: UBSan/ASan runtimes, read-only VM hooks",
)

PROPS["C16"] = dict(
    harness="p_sem",
    phases=dict(quick=[rc(6, 800), rc(6, 5000, flavour="fast", seed_offset=100), rc(4, 3000, harness="p_accept", seed_offset=200)],
                thorough=[rc(12, 10000), rc(12, 50000, flavour="fast", seed_offset=100), rc(8, 60000, harness="p_accept", seed_offset=200)]),
    rule=("cases: (accept direction) typed random programs, two thirds of them using neither WHILE nor GOTO with LOOP bodies that assign "
          "their own bound, a third with the library macros (which expand to LOOPs and assignments only), a twelfth with ~256-register frames. Oracle: the EXEC call graph of the emitted code is acyclic, the activation stack never exceeds definitions+1 "
          "after any instruction (also in two further runs of a copy after reset(), from the middle and from the end of a run), LOOP-only programs halt within the budget proportional to the reference step count and end in the "
          "reference state. (reject direction, harness p_accept; programs of 0-2 parameters, calls with the right number of arguments, none, or one too many) self/forward/mutual references must be rejected unless an earlier "
          "complete definition of the name exists. Non-trivial: LOOP-only program with nesting >=2 whose body assigns the bound and which "
          "iterates, or a general program reaching call depth >=3, or a rejected reference attempt; distinct by content hash."),
    min_nontrivial=dict(quick=300, thorough=5000),
    assumptions=["LOOP-only programs whose reference run exceeds the step budget are counted as inconclusive, not judged"],
    technique="property-based testing: rapidcheck-generated LOOP programs and reference attempts; call-graph/depth invariants and halting within a reference-derived bound",
    level_text="Exploration: call-graph and stack-depth invariants on every generated program; halting and final state of LOOP-only programs against the reference interpreter.",
    level_note="trusted: reference interpreter, generator",
)


PROPS["C04"] = dict(
    harness="p_accept",
    phases=dict(quick=[enum(8), rc(8, 2500)], thorough=[enum(16), rc(16, 60000), fuzz(8, 300, max_len=500)]),
    rule=("cases: generated valid macro-free sources (free layout, all keyword spellings, +/- sugar, optionally split over two files) "
          "unmutated (30%), with 1-4 token deletions/insertions/replacements/adjacent swaps/truncations over the language vocabulary plus "
          "junk tokens (60%), token soup (10%), statement sequences of 250-450 statements; plus every single-token edit of 2 (quick) / 3 (thorough) fixed base programs. Oracle: "
          "reference lexer -> sugar -> recursive-descent recogniser of the documented LL(1) grammar -> static rules (calls bind to the "
          "latest complete earlier definition with equal arity, builtin __INC__/__DEC__ form, jump targets are labels of the same body, "
          "literals < 2^31-1); generated_correctly must equal the verdict in both directions. Sources with duplicate labels/parameter "
          "names or DEFINE are skipped and counted. Non-trivial: rejected cases with >=3 tokens and accepted cases that were mutated; "
          "distinct by content hash."),
    exhaustive_note=dict(quick="all single-token deletions, adjacent swaps, truncations, and replacements/insertions by each of 53 vocabulary tokens, of 2 base programs",
                         thorough="all single-token deletions, adjacent swaps, truncations, and replacements/insertions by each of 74 vocabulary tokens, of 3 base programs"),
    min_nontrivial=dict(quick=4000, thorough=50000),
    assumptions=["the WHILE header is 'WHILE id != 0 DO' (the grammar comment omits the '!= 0' token the parser requires)",
                 "sources needing >= 1000 sugar rewrites are not judged (macro pass budget)"],
    technique="property-based testing: rapidcheck-generated sources and token-level mutants + exhaustive single-token edits vs a reference acceptor (grammar + static rules), both directions",
    level_text=("Exploration with an exhaustive sub-space: acceptance by the compiler is compared with an independent recogniser of the documented "
                "grammar and static rules on generated sources and their 1-4-edit neighbours, and on all single-token edits of fixed programs."),
    level_note="trusted: reference lexer and acceptor (harness/ref/ref_accept.hpp)",
)


PROPS["C03"] = dict(
    harness="p_code",
    phases=dict(quick=[rc(8, 1200), rc(8, 6000, flavour="fast", seed_offset=100)],
                thorough=[rc(16, 15000), rc(16, 70000, flavour="fast", seed_offset=100)]),
    rule=("cases: every successfully compiled generated program (typed generator incl. user macros, free layout, 1-3 files) plus unusual "
          "declarations: repeated parameter names (25% of cases allow them), OUT = parameter, no parameters, redefined names, frames of ~256 registers; 40% of the cases are 1-3-edit "
          "mutants of such programs (biased towards argument lists): whatever the compiler accepts is verified. Oracle (static, "
          "all paths): bytecode verifier written from instr.hpp: PREPARE first / HALT last, routine extents from EXEC entries, jumps stay "
          "inside their routine and never land inside a call sequence, every register operand < the frame size of the frame it addresses "
          "(ARG targets in the callee frame, ARG sources / PREPARE targets / RET targets in the caller frame), PREPARE ARG* EXEC straight "
          "line with every ARG filling a different parameter, all PREPAREs of an entry agree on size and stack map, stack-map keys inside the frame, "
          "argument count = parameter count of the named program; plus a dynamic monitor validating the operands of every executed "
          "instruction against the live frames (<=20000 steps) under ASan. Non-trivial: program with >=1 call; distinct by content hash."),
    min_nontrivial=dict(quick=3000, thorough=60000),
    assumptions=["sources the compiler rejects (e.g. after a fix: repeated parameter names) are counted as discards, not judged"],
    technique="property-based testing: rapidcheck-generated programs; static bytecode verifier over all instructions + operand monitor on every executed instruction",
    level_text="Exploration: a static well-formedness verifier (all paths of each emitted program) and a dynamic operand monitor on tens of thousands of generated programs including unusual declarations.",
    level_note="trusted: the verifier (harness/props/p_code.cpp), read-only VM hooks, ASan",
)

PROPS["C08"] = dict(
    harness="p_code",
    phases=dict(quick=[rc(8, 1200), rc(8, 6000, flavour="fast", seed_offset=100)],
                thorough=[rc(16, 15000), rc(16, 70000, flavour="fast", seed_offset=100)]),
    rule=("cases: generated programs in free layout (several statements per line, program headers sharing a line with other code, "
          "comments), split over 1-5 files at arbitrary token boundaries incl. nested includes, half of them with user macros defined "
          "in the main or in an included file. Oracle: potential_breaks and line_info are exact inverses without duplicates or empty "
          "entries; instruction is POTENTIAL_BREAK <=> listed; every location names a supplied file (never __standards__) and a line on "
          "which the reference lexer finds a token; every available location can be enabled and every location a stepping run reports "
          "(<=400 stops) can be enabled. Non-trivial: >=2 sites and a line with >=2 sites or a PROGRAM header sharing its line with "
          "preceding code; distinct by content hash."),
    min_nontrivial=dict(quick=3000, thorough=60000),
    assumptions=["'a token of the program text stands on the line' = some non-include token ends on that line of that file"],
    technique="property-based testing: rapidcheck-generated free-layout multi-file programs; table-inverse / site / real-line invariants + stepping-vs-enable corollary",
    level_text="Exploration: table invariants on tens of thousands of generated free-layout, file-split programs.",
    level_note="trusted: reference lexer for token lines; generator",
)


PROPS["C02"] = dict(
    harness="p_total",
    phases=dict(quick=[enum(8), rc(8, 2500)], thorough=[enum(16), rc(16, 30000), fuzz(12, 420, max_len=600)]),
    rule=("cases: arbitrary file maps and main names: 1-4-edit token neighbours (incl. DEFINE/include tokens) of generated programs with "
          "macros and several files, token soup, raw bytes, the named truncated constructs (argument list ending in a comma, header "
          "without ports, DEFINE cut off, stray $n/#n/template tokens, out-of-range numbers) alone or embedded in soup, broken file maps "
          "(absent main, empty file, empty map, self/mutual includes), random macro definitions followed by soup; plus every single-token "
          "deletion / adjacent swap / truncation / insertion of 3 fixed valid programs with macros and an include. Oracle: compile returns "
          "(ASan, UBSan, _GLIBCXX_ASSERTIONS, hang guard; LeakSanitizer recoverable check every 128 cases and at exit), "
          "generated_correctly <=> errors.empty(), an incorrect result has >=1 error with non-empty message and a location naming a "
          "supplied file / __standards__ / '-' with a line inside that file, emitted code size <= 64+64*(spliced token count + 1024*max "
          "macro body). Non-trivial: rejected input with >=3 tokens, or input containing a macro definition; distinct by content hash."),
    exhaustive_note=dict(quick="all single-token deletions, adjacent swaps, truncations and a third of the 80-token insertions at every position of 3 base programs",
                         thorough="all single-token deletions, adjacent swaps, truncations and insertions of each of 80 vocabulary tokens at every position of 3 base programs"),
    min_nontrivial=dict(quick=5000, thorough=80000),
    assumptions=["inputs are below 8 KiB / 1500 tokens: recursion depth proportional to token count (finding F9) is probed separately",
                 "'bounded work' is checked by the output-size counter and the hang guard, not by timing",
                 "the stronger 'every error is well located' is measured (class all-errors-located) but not asserted"],
    technique="fuzzing / property-based testing: rapidcheck-generated hostile file maps + exhaustive single-token edits under ASan/UBSan/LSan with a result-shape invariant",
    level_text=("Exploration: hostile and mutated inputs of many shapes are compiled under sanitizers; the result shape stated by the property is "
                "asserted on every case. Single-token edits of three fixed programs are enumerated completely."),
    level_note="trusted: sanitizer runtimes; reference lexer for token counts and line counts",
)


PROPS["C05"] = dict(
    harness="p_dbg",
    phases=dict(quick=[enum(8), rc(8, 1500)], thorough=[dict(kind="enum", shards=16, flavour="fast"), rc(16, 20000), rc(16, 40000, flavour="fast", seed_offset=100)]),
    rule=("cases: histories over {execute, executeSingle(xk), step-until-done (the loop while(!isDone()) executeSingle()), stepping on/off, enable/disable(location from the available ones, bogus "
          "ones and any location the program's tables name), enable-all, clear, reads} of length 3-40 on generated programs (canonical and free layout, several sites per line, calls in loops), "
          "plus ALL histories of length <=5 (quick) / <=6 (thorough) over an 8-letter alphabet on 7 fixed small programs, plus a sweep "
          "over resume lengths on a long-running fixed program (step k instructions by hand for every k in 0..1100, enable a late "
          "line, execute twice). Oracle (metamorphic): the uninterrupted run of a second VM recorded as instruction-pointer path with a digest of all activations' "
          "variables; after every call the machine must be at the model's position on that path with the recorded values, its private "
          "code may differ from the compiled code only in the opcode of listed sites, and completing the history with clear; stepping "
          "off; execute ends in the uninterrupted run's final state. Non-trivial: >=1 stop inside a callee or >=2 stops, and >=1 "
          "enable/disable/stepping change after execution started; distinct by hash of program+history."),
    exhaustive_note=dict(quick="all 8-letter histories of length <=5 on 7 fixed programs", thorough="all 8-letter histories of length <=6 on 7 fixed programs"),
    min_nontrivial=dict(quick=3000, thorough=50000),
    assumptions=["the uninterrupted run is recorded for at most 1500 instructions; on programs that do not halt within that prefix execute() is only issued where the model predicts a stop inside the prefix (it cannot be interrupted), otherwise the history steps",
                 "what getCurrentBreak() returns between sites or at HALT is not asserted (only at a stop, before the first step and after reset)"],
    technique="model-based property testing: exhaustive short API histories + rapidcheck-generated histories; metamorphic oracle (same instruction path and values as the uninterrupted run)",
    level_text="Exploration with an exhaustive sub-space (all short histories on fixed programs); random long histories on generated programs.",
    level_note="trusted: read-only VM hooks (ip, frames, private code); the recorded uninterrupted run of the same implementation is the reference path",
    env={"VERIF_FAMILY": "C05"},
)

PROPS["C06"] = dict(
    harness="p_dbg",
    phases=dict(quick=[enum(8), rc(8, 1500)], thorough=[dict(kind="enum", shards=16, flavour="fast"), rc(16, 20000), rc(16, 40000, flavour="fast", seed_offset=100)]),
    rule=("cases: as C05 plus reset (9-letter alphabet for the exhaustive part; enable-all; resume-length sweep k=0..1100). Oracle: explicit model (position k on the recorded path, enabled "
          "set E, stepping flag S): execute stops at the first j>=k whose instruction is a site with S or loc in E, else at the end; "
          "executeSingle returns true exactly at such a site or at HALT; setBreakPoint returns true exactly for available locations and "
          "updates E only then; after every call ip, isDone, the enabled set and the stepping flag "
          "are compared, getCurrentBreak() equals the site's location when the call stopped at a site, stays that location while calls that execute nothing follow, and is none before the first step "
          "and after reset. Non-trivial: stops at >=2 different sites of which one is on a line with >=2 sites or inside a callee."),
    exhaustive_note=dict(quick="all 9-letter histories of length <=5 on 7 fixed programs", thorough="all 9-letter histories of length <=6 on 7 fixed programs"),
    min_nontrivial=dict(quick=3000, thorough=50000),
    assumptions=["the uninterrupted run is recorded for at most 1500 instructions; on programs that do not halt within that prefix execute() is only issued where the model predicts a stop inside the prefix (it cannot be interrupted), otherwise the history steps",
                 "what getCurrentBreak() returns between sites or at HALT is not asserted (only at a stop, before the first step and after reset)"],
    technique="model-based property testing: exhaustive short API histories + rapidcheck-generated histories vs an explicit stop/enable model",
    level_text="Exploration with an exhaustive sub-space (all short histories on fixed programs); random long histories on generated programs.",
    level_note="trusted: the stop/enable model in harness/props/p_dbg.cpp; read-only VM hooks",
    env={"VERIF_FAMILY": "C06"},
)

PROPS["C17"] = dict(
    harness="p_dbg",
    phases=dict(quick=[enum(8), rc(8, 1500)], thorough=[dict(kind="enum", shards=16, flavour="fast"), rc(16, 20000), rc(16, 40000, flavour="fast", seed_offset=100)]),
    rule=("cases: history h1 (partial runs, stops inside callees, enabled breakpoints, stepping on), reset, history h2, any number of resets "
          "(exhaustive 9-letter histories of length <=5/6 on 7 fixed programs; random histories with a forced reset in the middle). "
          "Oracle: immediately after reset ip=0, no data words, no frames, every site passive, enabled set empty, stepping off, current "
          "location none; afterwards every observation (ip, isDone, enabled set, stepping, current location, variable digest, data "
          "memory, return values) equals a freshly constructed VM driven by the same calls; once the end was reached execute / "
          "executeSingle change nothing and return true. Non-trivial: reset while >=2 activations are live and a breakpoint is enabled, "
          "or a reset after progress in a history that also calls execute/executeSingle after the end."),
    exhaustive_note=dict(quick="all 9-letter histories of length <=5 on 7 fixed programs", thorough="all 9-letter histories of length <=6 on 7 fixed programs"),
    min_nontrivial=dict(quick=1500, thorough=30000),
    assumptions=["the uninterrupted run is recorded for at most 1500 instructions; on programs that do not halt within that prefix execute() is only issued where the model predicts a stop inside the prefix (it cannot be interrupted), otherwise the history steps",
                 "what getCurrentBreak() returns between sites or at HALT is not asserted (only at a stop, before the first step and after reset)"],
    technique="model-based property testing: exhaustive short API histories + rapidcheck-generated histories; differential reset-vs-fresh machine incl. hidden state",
    level_text="Exploration with an exhaustive sub-space (all short histories on fixed programs); random long histories on generated programs.",
    level_note="trusted: read-only VM hooks for the hidden state",
    env={"VERIF_FAMILY": "C17"},
)


PROPS["C13"] = dict(
    harness="p_lr",
    phases=dict(quick=[rc(8, 2500, env={"VERIF_C13_LEN": "5"}), rc(8, 9000, flavour="fast", seed_offset=100, env={"VERIF_C13_LEN": "5"})],
                thorough=[rc(16, 4000, env={"VERIF_C13_LEN": "6"}), rc(16, 30000, flavour="fast", seed_offset=100, env={"VERIF_C13_LEN": "6"})]),
    rule=("cases: random grammars with 1-4 non-terminals, 1-3 terminals (+ end marker), 1-7 productions with right sides of length 0-3 "
          "(epsilon rules, explicit epsilon symbols anywhere in a right side - also adjacent ones -, left/right recursion, unproductive and "
          "unreachable symbols), one grammar in eight a unit chain A0->A1->...->Ak, Ak->eps|A0 t with up to 11 non-terminals; full or prefix mode; per "
          "grammar ALL strings of length <=5 (quick) / <=6 (thorough) over the terminals 1..largest used, end-marked. Oracle: chart-based "
          "reference recogniser with derivation counts: FIRST sets equal the fixpoint definition; if generation reports no conflict the "
          "parser accepts w$ exactly when w (prefix mode: some prefix of w) is in L(G), the returned value is the fold of the unique "
          "derivation tree with children in source order (obtained by reversing the popped vector) and every action ran once per tree "
          "node; a grammar with a string that has two derivations must report a conflict. Nothing is asserted for unambiguous grammars "
          "reported as conflicting. Non-trivial: conflict-free grammar that accepts a string of length >=4 or has an epsilon rule, or an "
          "ambiguous grammar; distinct by hash of grammar+mode."),
    min_nontrivial=dict(quick=1500, thorough=30000),
    assumptions=["in prefix mode the folded value is only compared when exactly one prefix of the input is in the language",
                 "ambiguity is detected on strings up to the enumerated length only"],
    technique="property-based testing: rapidcheck-generated grammars x exhaustive bounded strings vs a reference chart recogniser (membership, derivation fold, FIRST sets)",
    level_text="Exploration: thousands of random small grammars, each checked on every end-marked string up to length 5/6 in full or prefix mode against an independent recogniser.",
    level_note="trusted: reference chart recogniser (harness/ref/ref_cfg.hpp)",
)


PROPS["C09"] = dict(
    harness="p_macro",
    phases=dict(quick=[enum(8), rc(4, 250), rc(4, 1000, flavour="fast", seed_offset=100)],
                thorough=[enum(16), rc(8, 6000), rc(8, 40000, flavour="fast", seed_offset=100), fuzz(8, 360, max_len=300)]),
    rule=("cases: macro sets of 1-4 definitions (priorities from {none,5,5,9} so ties and inversions are frequent, literal identifiers / "
          "operator characters / integers / keywords from a small pool so candidates overlap, all five slot kinds, occasionally a long "
          "pattern with 11-13 slots so that $10.. occur, fixed cases with 254-300 never-matching filler definitions in front of a family, bodies with $n, #n, literals and re-emitted patterns; definitions one per line, "
          "with the body on the next line, or sharing lines) x token streams built from pattern instances whose slots are filled with identifiers, integers, "
          "nested calls, argument lists and multi-statement sequences, plus noise; plus ALL streams of length <=5 (quick) / <=6 (thorough) "
          "over a 5-token vocabulary for 4 fixed macro families. Only definitions produced by extract_macros are passed to apply_macros. "
          "Oracle: the run with budgets 1,2,3,... is validated step by step: the reference matcher (chart recogniser over the slot grammar "
          "with text constraints) computes all (macro,start,length) matches of the usable definitions, the arg-max set by (priority, "
          "leftmost, longest), and the substitution from the unique derivation; the implementation's next sequence must equal one of the "
          "arg-max rewrites (all other tokens untouched incl. file/line; temporaries modulo naming) and must stop exactly when nothing "
          "matches. Non-trivial: >=2 rewrites with competing candidates (different macros or starts); distinct by content hash."),
    exhaustive_note=dict(quick="all streams of length <=5 over {A,x,!,1,;} for 4 macro families", thorough="all streams of length <=6 over {A,x,!,1,;} for 4 macro families"),
    min_nontrivial=dict(quick=500, thorough=10000),
    assumptions=["slot contents follow the slot grammar implemented in macro.cpp (one label per statement, ARGS non-empty)",
                 "full ties between different macros (same priority, start and length) leave the choice open",
                 "cases in which an accepted pattern has non-unique slot boundaries are handed to C12 and not judged here"],
    technique="property-based testing: rapidcheck-generated macro sets and streams + exhaustive short streams; step-by-step validation against a reference matcher/expander",
    level_text="Exploration with an exhaustive sub-space: every rewriting step of every generated run is validated against a reference matcher (priority, leftmost, longest, substitution).",
    level_note="trusted: chart recogniser (ref_cfg.hpp), reference slot grammar and expander (ref_macro.hpp), reference lexer",
)

PROPS["C10"] = dict(
    harness="p_macro",
    phases=dict(quick=[dict(kind="enum", shards=6, flavour="fast"), rc(3, 150), rc(3, 700, flavour="fast", seed_offset=100), rc(4, 1200, harness="p_sem", flavour="fast", seed_offset=200)],
                thorough=[dict(kind="enum", shards=8, flavour="fast"), rc(8, 6000), rc(8, 40000, flavour="fast", seed_offset=100), rc(8, 60000, harness="p_sem", flavour="fast", seed_offset=200)]),
    rule=("cases: (long runs, p_macro) single apply_macros runs of 40..300 (thorough: ..700) expansion steps of two temporary-using macros, "
          "plain and nested: the expanded stream must contain exactly one distinct non-user-writable name per temporary per step, each "
          "written exactly twice - so steps that are hundreds of passes apart still get different names; all short streams of the C09 "
          "families with the naming invariants. (token level, p_macro) macro sets whose bodies contain #n, streams with repeated and nested pattern instances, half of them "
          "with the definitions alternating between two included files (a fifth of them with 130-character names) so that temporaries are "
          "defined on equal line numbers, definitions also in free layout (body on the next line, a pattern on the line of the previous "
          "definition's body, shared lines); every step "
          "of the validated run (see C09) is checked: equal n => equal name within the step, different n => different names, the name is "
          "no identifier of the input or of a macro body, the reference lexer does not tokenise it as one identifier, and no other step "
          "used it. (semantic level, p_sem) generated programs that use the temporary-using library macros IF-THEN-ELSE / SWAP / REPEAT "
          "nested in their own slots and repeatedly, compared with the reference interpreter's native meaning of these constructs. "
          "Non-trivial: >=2 expansion steps introduce a temporary with the same n / a program with >=2 uses of temporary-using macros."),
    min_nontrivial=dict(quick=500, thorough=10000),
    assumptions=["see C09 for the step validation; see C01 for the semantic comparison"],
    technique="property-based testing: temporary-name invariants on every validated rewriting step + end-to-end values of programs nesting temporary-using macros",
    level_text="Exploration: naming invariants per rewriting step on generated macro sets, and semantic interference checks on generated programs.",
    level_note="trusted: reference expander, reference interpreter",
)

PROPS["C11"] = dict(
    harness="p_macro",
    phases=dict(quick=[dict(kind="enum", shards=4, flavour="fast"), rc(6, 200), rc(8, 700, flavour="fast", seed_offset=100)],
                thorough=[dict(kind="enum", shards=4, flavour="fast"), rc(8, 4000), rc(8, 25000, flavour="fast", seed_offset=100)]),
    rule=("cases: macro sets biased to self-reproducing / mutually recursive / growing bodies, budgets 1..64 directly on apply_macros, and the "
          "fixed 1024 through compile() for divergent sets whose stream does not grow; plus six fixed divergent non-growing sets (identity "
          "rewrites whose every intermediate stream is a valid program, mutual recursion, a runaway macro below a terminating one) at two "
          "budgets and through compile(). Oracle: the reference expander performs min(budget, "
          "needed) steps; apply_macros(budget) must return exactly that sequence (so at most `budget` steps were taken); if a pattern "
          "still matches afterwards the too-many-substitutions error must be present (it may also be present when exactly `budget` steps "
          "were needed), if fewer steps sufficed it must be absent; through compile() an unfinished expansion yields an incorrect result "
          "with that error. Non-trivial: divergent at the budget, or needing >= budget-1 steps; distinct by hash of source+budget."),
    min_nontrivial=dict(quick=500, thorough=10000),
    assumptions=["cases where the reference hits a full tie, ambiguous slot boundaries or a stream above 90 tokens are discarded and counted: the implementation is not run with the full budget there (exponential growth of slot-duplicating bodies, known finding F11)",
                 "compile() with its 1024 passes is only exercised for divergent sets with a non-growing stream (cost is quadratic otherwise)"],
    technique="property-based testing: rapidcheck-generated divergent macro sets x budgets vs a reference expander (step count, error flag)",
    level_text="Exploration: step count and error flag against a reference expander for budgets 1..64 and the compiler's 1024.",
    level_note="trusted: reference expander (ref_macro.hpp)",
)

PROPS["C12"] = dict(
    harness="p_macro",
    phases=dict(quick=[enum(8), rc(4, 300), rc(4, 1200, flavour="fast", seed_offset=100)],
                thorough=[enum(16), rc(8, 4000), rc(8, 30000, flavour="fast", seed_offset=100)]),
    rule=("cases: ALL patterns of length <=3 (quick: 2379) / <=4 (thorough: 30940) over 13 symbols (5 slot kinds; literals ; , id int "
          "operator END DO :=), judged in batches of 120 definitions per apply_macros call (a verdict must not depend on the other "
          "definitions of the call), and random patterns up to length 8 each with its four open-ended variants (X <P>, X <ARGS>, X <P> ;, X "
          "<ARGS> ,). Oracle: an independent canonical LR(1) construction in prefix mode over the same slot grammar: the non-linear error "
          "is reported exactly when the reference finds a table cell with two different actions, and is positioned at the definition; "
          "semantic cross-checks independent of that reference: the open-ended variants are always rejected; an accepted pattern "
          "matches generated streams with at most one length per start and one derivation; a rejected macro is never applied and does "
          "not prevent another macro from being applied. Non-trivial: pattern with a <V>, <ARGS> or <P> slot; distinct by pattern text."),
    exhaustive_note=dict(quick="all 2379 patterns of length <=3 over 13 symbols", thorough="all 30940 patterns of length <=4 over 13 symbols"),
    min_nontrivial=dict(quick=1000, thorough=15000),
    assumptions=["'deterministic => accepted' rests on the reference LR(1) construction, i.e. on the same definition of determinism as the implementation; the semantic cross-checks cover the other direction only",
                 "'<P> ; !' is recognisable with one token of lookahead; the property's examples are read as instances of its defining clause"],
    technique="property-based testing: exhaustive short patterns + rapidcheck random patterns vs a reference LR(1) prefix-conflict analysis and semantic cross-checks",
    level_text="Exploration with an exhaustive sub-space (all patterns up to length 3/4).",
    level_note="trusted: reference LR(1) (ref_lr1.hpp), chart recogniser",
)


PROPS["C18"] = dict(
    harness="p_det",
    phases=dict(quick=[rc(8, 50), rc(8, 50, flavour="tsan", seed_offset=100)],
                thorough=[rc(8, 1000), rc(8, 700, flavour="tsan", seed_offset=100)]),
    rule=("cases: sequences of 2-6 compile inputs (valid programs with and without user macros/temporaries/loops, priority-sensitive "
          "&/* expressions, 2-edit mutants, token soup, a sixth preceded by a macro whose pattern is not prefix-deterministic; 1-3 files; a third of the inputs are near copies of the previous one with one "
          "number - preferably a macro priority - or one identifier changed) and 1-8 threads; every case runs in a forked child, so the "
          "case is the complete history of its process. Oracle: canonical serialisation of everything compile() returns (instructions field-wise, "
          "stack maps, both tables, errors, file requests) plus two bounded VM runs (plain; stepping with a breakpoint). (a) history "
          "independence: each input compiled after the preceding ones equals its compilation as the very first call of a fresh process "
          "(a fork server started before this process compiled anything); (b) N threads compiling/running the inputs concurrently give, "
          "per input, the single-threaded serialisation - run under ASan and under ThreadSanitizer, any report is a violation; (c) a VM "
          "stepped in lock step with a second VM on the same program (stepping, breakpoints, reset) behaves as alone. Non-trivial: >=2 "
          "threads with >=2 distinct inputs one of which uses macros; or >=3 inputs single-threaded; distinct by hash of the sequence."),
    min_nontrivial=dict(quick=200, thorough=3000),
    assumptions=["ThreadSanitizer detects races between accesses that both execute, independent of timing; thread schedules are not enumerated",
                 "inputs whose macro expansion grows explosively (known finding F11) are excluded by the same pre-screen as C02"],
    technique="property-based testing: rapidcheck-generated compile/run sequences; differential against a fresh process and against single-threaded results, under ASan and TSan",
    level_text="Exploration: history independence is attacked directly (fresh-process differential); data races are detected by TSan on executed code, not by enumerating interleavings.",
    level_note="trusted: TSan/ASan runtimes; the serialisation covers every public field of CodegenResult",
    env={"VERIF_CASE_TIMEOUT": "240"},  # a case is 2-6 compiles + fresh-process compiles + threads, under TSan 5-15x slower
)


def run_check(chk, drv):
    cfg = chk.cfg
    binp = drv.build_harness(cfg["harness"], chk.th)
    chk.run_replay_corpus(binp)
    special = cfg.get("special")
    if special == "dual_scanner":
        return dual_scanner(chk, drv, binp)
    bins = {(cfg["harness"], "asan"): binp}
    phases = cfg["phases"][chk.tier]
    import os
    if os.environ.get("VERIF_ONLY_KIND"):  # development knob: run only the phases of one kind
        phases = [ph for ph in phases if ph["kind"] == os.environ["VERIF_ONLY_KIND"]]
    for ph in phases:
        key = (ph.get("harness", cfg["harness"]), ph.get("flavour", "asan"))
        if key not in bins:
            bins[key] = drv.build_harness(key[0], chk.th, key[1])
    for h in {k[0] for k in bins}:
        if h != cfg["harness"]:
            chk.run_replay_corpus(bins.get((h, "asan")) or drv.build_harness(h, chk.th), subdir=h)
    # all phases of a tier run concurrently (the machine has 16 cores; workers are single-threaded)
    spawned = []
    for k, ph in enumerate(phases):
        key = (ph.get("harness", cfg["harness"]), ph.get("flavour", "asan"))
        if ph["kind"] == "fuzz":
            ph = dict(ph, replay_bin=bins.get((key[0], "asan")) or drv.build_harness(key[0], chk.th, "asan"))
        spawned.append(chk.spawn_phase(bins[key], ph, tagprefix="%s-%s%d-" % (key[0], key[1], k)))
    for ws in spawned:
        chk.collect_phase(ws)
    chk.run_probes(drv.build_harness)
    return chk.finish()


def dual_scanner(chk, drv, binp):
    """C14: the pre-generated scanner and one generated from lexer.l must behave identically.
    Both binaries run the same seeds; each is compared with the reference lexer, and their
    output digests (hash over every token of every case) must be equal."""
    cfg = chk.cfg
    import filecmp, os
    flexbin = None
    try:
        flexbin = drv.build_harness(cfg["harness"], chk.th, scanner="flex")
    except drv.BuildError as e:
        chk.broken = "flex-generated scanner could not be built: %s" % e
        return chk.finish()
    gen_c = os.path.join(drv.BUILD, chk.th, "asan", "flexgen", "lex.yy.c")
    identical = filecmp.cmp(gen_c, os.path.join(drv.REPO, "Compiler/src/lex.yy.c"), shallow=False)
    chk.extra_cov["generated_scanner_identical_to_committed"] = identical
    for ph in cfg["phases"][chk.tier]:
        a = chk.run_phase(binp, ph, "committed-")
        if chk.violations or chk.broken:
            break
        b = chk.run_phase(flexbin, ph, "flex-")
        if chk.violations or chk.broken:
            break
        da = [s["digest"] for s in a if s]
        db = [s["digest"] for s in b if s]
        if da != db:
            chk.violations.append(("scan:config-divergence",
                                   "committed lex.yy.c and the scanner generated from lexer.l produce different token streams "
                                   "on the same generated inputs (digests %s vs %s)" % (da, db),
                                   os.path.join(drv.VERIF, "evidence", "C14.json")))
    if chk.tier == "thorough" and not chk.violations and not chk.broken:
        # coverage-guided campaign on the committed scanner (libFuzzer, same tape decoder)
        fz = drv.build_harness(cfg["harness"], chk.th, "fuzz")
        ws = chk.spawn_phase(fz, dict(fuzz(8, 300, max_len=400), replay_bin=binp), "fuzz-")
        chk.collect_phase(ws)
    return chk.finish()
