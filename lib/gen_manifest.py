#!/usr/bin/env python3
"""Regenerates MANIFEST.json from lib/props.py (single source of truth for what is claimed)."""
import json, os, subprocess, sys
HERE = os.path.dirname(os.path.abspath(__file__))
sys.path.insert(0, HERE)
import props

VERIF = os.path.dirname(HERE)
all_ids = [json.loads(l)["id"] for l in open(os.path.join(VERIF, "properties.jsonl"))]
hook_commits = subprocess.run(["git", "-C", "/repo", "log", "--format=%H", "--grep=^verif hooks"], stdout=subprocess.PIPE, text=True).stdout.split()

checks = []
for pid in all_ids:
    if pid not in props.PROPS:
        continue
    c = props.PROPS[pid]
    checks.append(dict(
        property_id=pid,
        quick_cmd="./check %s --tier quick" % pid,
        thorough_cmd="./check %s --tier thorough" % pid,
        evidence_file="/verif/evidence/%s.json" % pid,
        replay_cmd_template="./check %s --replay {path}" % pid,
        engine=c["harness"],
        level_claimed=dict(category=c.get("level", "exploration"), text=c["level_text"], design_ref=c.get("design_ref", "DESIGN.md §5 " + pid)),
        level_note=c["level_note"],
        technique=c["technique"],
    ))
na = [dict(property_id=pid, reason=props.NOT_APPLICABLE.get(pid, "no check registered in this revision")) for pid in all_ids if pid not in props.PROPS]
m = dict(
    version=1,
    setup_cmd="./check --build-only",
    hooks=dict(guard="THEO_VERIF", enable="harness builds compile /repo's working tree with -DTHEO_VERIF (see check: BASE_FLAGS)",
               baseline_off_cmd="cmake -G Ninja -S /repo -B /repo/_build && cmake --build /repo/_build && ctest --test-dir /repo/_build -j8 --timeout 900",
               source_commits=hook_commits, add_only=True),
    engines=[dict(name=n, path="harness/props/%s.cpp" % n, serves_properties=[p for p in all_ids if p in props.PROPS and props.PROPS[p]["harness"] == n],
                  kind_free_text=props.ENGINES.get(n, "")) for n in sorted({c["harness"] for c in props.PROPS.values()})],
    checks=checks,
    notes=props.NOTES,
    not_applicable=na,
)
json.dump(m, open(os.path.join(VERIF, "MANIFEST.json"), "w"), indent=1)
print("claimed:", [c["property_id"] for c in checks], "not_applicable:", [n["property_id"] for n in na])
