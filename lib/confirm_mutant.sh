#!/bin/bash
# confirm a seeded change in its scratch worktree: tests pass with it, demo fails with it and passes without it
# usage: confirm_mutant.sh <worktree> [A|B]   (suffix: patchA.diff + demoA/ ...)
set -u
WT=$1
SFX=${2:-}
cd "$WT" || exit 2
[ -s patch$SFX.diff ] || { echo "no patch$SFX.diff"; exit 2; }
git checkout -q -- Compiler VM 2>/dev/null
git status --short -- Compiler VM | head -3
git apply --check patch$SFX.diff || { echo "patch does not apply to HEAD"; exit 2; }
# without the change
cmake -G Ninja -S . -B _build >/dev/null && cmake --build _build >/dev/null || { echo "clean build failed"; exit 2; }
bash demo$SFX/build.sh >/dev/null 2>&1 || { echo "demo build failed (clean)"; exit 2; }
./demo$SFX/demo >/dev/null 2>&1; CLEAN=$?
git apply patch$SFX.diff
cmake --build _build >/dev/null || { echo "build with change failed"; git checkout -q -- Compiler VM; exit 2; }
T=$(ctest --test-dir _build -j8 2>&1 | grep -c "Passed")
TF=$(ctest --test-dir _build -j8 2>&1 | grep "tests passed")
bash demo$SFX/build.sh >/dev/null 2>&1
./demo$SFX/demo >/tmp/demo.out 2>&1; MUT=$?
echo "demo clean=$CLEAN mutated=$MUT ; ctest with change: $TF"
tail -3 /tmp/demo.out
git checkout -q -- Compiler VM
[ "$CLEAN" = 0 ] && [ "$MUT" != 0 ] && echo CONFIRMED
