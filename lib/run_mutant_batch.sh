#!/bin/bash
# confirm and try a batch of seeded changes that live in scratch worktrees
# usage: run_mutant_batch.sh <dir with wt-<ID>/patch{A,B}.diff> <ID>...
set -u
D=$1; shift
cd /verif
for id in "$@"; do
  for s in A B; do
    [ -f $D/wt-$id/patch$s.diff ] || continue
    echo "=== mutant $id$s"
    lib/confirm_mutant.sh $D/wt-$id $s 2>&1 | tail -2 | cut -c1-160
    lib/try_mutant.sh $D/wt-$id/patch$s.diff $id 2>&1 | tail -4
  done
done
