#!/bin/bash
# Which lines of the library do the generators never execute? Builds every harness with gcov instrumentation, runs a
# short rapidcheck / enumeration session per property and prints the unexecuted lines of Compiler/src and VM/src.
# Development aid (generator health), not a check.  usage: lib/coverage.sh [cases-per-property]
set -u
N=${1:-400}
cd /verif
TH=$(./check --tree-hash)
D=build/$TH/cov
python3 - <<PY
import importlib.machinery, importlib.util, sys
sys.argv=['x']
l=importlib.machinery.SourceFileLoader('chk','/verif/check'); sp=importlib.util.spec_from_loader('chk',l); m=importlib.util.module_from_spec(sp); l.exec_module(m)
for h in ['p_sem','p_total','p_code','p_accept','p_dbg','p_macro','p_lr','p_scan','p_det']:
    m.build_harness(h, m.tree_hash(), 'cov')
PY
find $D -name '*.gcda' -delete
run() { # harness prop mode...
  local b=$(ls $D/$1-* | grep -v '\.gc' | head -1); shift
  RC_PARAMS="seed=4242 max_success=$N" VERIF_CASE_TIMEOUT=600 timeout 900 $b "$@" >/dev/null 2>&1
}
for p in C01 C07 C10 C16 C19 C20; do run p_sem $p rc & done
run p_total C02 rc & run p_total C02 enum 0 40 quick &
run p_code C03 rc & run p_code C08 rc &
run p_accept C04 rc & run p_accept C16 rc &
wait
for p in C05 C06 C17; do run p_dbg $p rc & done
run p_dbg C06 enum 0 400 quick &
for p in C09 C10 C11 C12; do run p_macro $p rc & done
run p_macro C12 enum 0 20 quick & run p_macro C09 enum 0 200 quick & run p_macro C11 enum 0 1 quick &
run p_lr C13 rc & run p_scan C14 rc & run p_scan C15 rc & run p_scan C14 enum 0 50 quick & run p_scan C15 enum 0 50 quick &
wait
cd $D
for src in Compiler_src_ast.cpp Compiler_src_parse.cpp Compiler_src_gen.cpp Compiler_src_compiler.cpp Compiler_src_scan.cpp Compiler_src_macro.cpp Compiler_src_ParserGenerator_grammar.cpp Compiler_src_ParserGenerator_lrdea.cpp VM_src_vm.cpp VM_src_program.cpp VM_src_instr.cpp; do
  gcov -o . $src.o >/dev/null 2>&1
done
for g in ast.cpp.gcov parse.cpp.gcov gen.cpp.gcov compiler.cpp.gcov scan.cpp.gcov macro.cpp.gcov grammar.cpp.gcov lrdea.cpp.gcov vm.cpp.gcov program.cpp.gcov instr.cpp.gcov lrparser.hpp.gcov; do
  [ -f $g ] || continue
  tot=$(grep -vc '^ *-:' $g); un=$(grep -c '#####' $g)
  echo "== $g: $un of $tot executable lines never executed"
  grep '#####' $g | cut -c1-150 | head -40
done
