#!/bin/bash
# apply a seeded change to /repo, run the given quick checks against it, undo it straight afterwards
# usage: try_mutant.sh <patch.diff> <ID> [<ID>...]
set -u
P=$1; shift
cd /verif
git -C /repo diff --quiet || { echo "/repo has uncommitted changes"; exit 2; }
git -C /repo apply "$P" || { echo "patch does not apply"; exit 2; }
trap 'git -C /repo checkout -- . ; git -C /repo status --short | grep -v _build | head -3' EXIT
for id in "$@"; do
  VERIF_SEED=${VERIF_SEED:-1} timeout 1500 ./check $id --tier quick 2>&1 | grep -E "^(OK|VIOLATION|CHECK-BROKEN|BUILD-FAILURE|KNOWN)|signature=|^  [a-zA-Z]" | cut -c1-260 | head -6
done
