// G-mut: token-level neighbours of a source text, and G-soup: token soup / raw bytes.
// Works on R-lex tokens (texts), so it needs ref_lexer.hpp but no repository header.
#pragma once
#include <string>
#include <vector>

#include "../ref/ref_lexer.hpp"
#include "tape.hpp"

namespace gm {
using verif::Tape;

inline const std::vector<std::string> &vocab_lang() {
  static const std::vector<std::string> v = {
      "PROGRAM", "prog", "IN", "in", "OUT", "Out", "DO", "do", "END", "end", "End", "LOOP", "loop", "WHILE", "While",
      "GOTO", "goto", "IF", "if", "THEN", "then", "STOP", "stop", "RUN", "run", "WITH", "with", ";", ",", ":", ":=",
      "=", "!= 0", "+", "-", "x0", "x1", "x2", "a", "l0", "l1", "f", "g", "__INC__", "__DEC__", "0", "1", "5", "2147483646",
      "2147483647", "2147483648", "99999999999999999999"};
  return v;
}
inline const std::vector<std::string> &vocab_junk() {
  static const std::vector<std::string> v = {"$0", "$1", "#0", "#1", "<V>", "<P>", "<ID>", "<INT>", "<ARGS>", "AS", "PRIO",
                                             "END DEFINE", "enddef", "(", ")", "!", "@", "*", "&", "\"f\"", "ELSE"};
  return v;
}
inline const std::vector<std::string> &vocab_meta() {
  static const std::vector<std::string> v = {"DEFINE", "def", "include", "INCLUDE", "include \"part1.theo\"", "include \"nofile\""};
  return v;
}

inline std::string pick_token(Tape &t, bool allow_meta) {
  switch (t.weighted({8, 2, (unsigned)(allow_meta ? 1 : 0)})) {
    case 0: return vocab_lang()[t.pick((unsigned)vocab_lang().size())];
    case 1: return vocab_junk()[t.pick((unsigned)vocab_junk().size())];
    default: return vocab_meta()[t.pick((unsigned)vocab_meta().size())];
  }
}

struct Edit {
  enum K { DEL, INS, REP, SWAP, TRUNC, DELN } k;
  size_t pos;
  std::string tok;
  size_t n = 1;  // DELN: number of consecutive tokens removed
};

inline std::vector<std::string> texts_of(const std::string &src) {
  std::vector<std::string> v;
  for (auto &t : ref::lex_text(src, "m")) v.push_back(t.text);
  return v;
}

inline void apply_edit(std::vector<std::string> &toks, const Edit &e) {
  switch (e.k) {
    case Edit::DEL:
      if (e.pos < toks.size()) toks.erase(toks.begin() + (long)e.pos);
      break;
    case Edit::INS: toks.insert(toks.begin() + (long)std::min(e.pos, toks.size()), e.tok); break;
    case Edit::REP:
      if (e.pos < toks.size()) toks[e.pos] = e.tok;
      break;
    case Edit::SWAP:
      if (e.pos + 1 < toks.size()) std::swap(toks[e.pos], toks[e.pos + 1]);
      break;
    case Edit::TRUNC:
      if (e.pos < toks.size()) toks.resize(e.pos);
      break;
    case Edit::DELN:
      if (e.pos < toks.size())
        toks.erase(toks.begin() + (long)e.pos, toks.begin() + (long)std::min(toks.size(), e.pos + e.n));
      break;
  }
}

inline bool is_id_text(const std::string &s) {
  if (s.empty() || !(isalpha((unsigned char)s[0]) || s[0] == '_')) return false;
  auto l = ref::lex_text(s, "m");
  return l.size() == 1 && l[0].k == ref::K::ID;
}
inline bool is_int_text(const std::string &s) { return !s.empty() && isdigit((unsigned char)s[0]); }
inline bool is_keyword_text(const std::string &s) {
  if (s.empty() || !isalpha((unsigned char)s[0])) return false;
  auto l = ref::lex_text(s, "m");
  return l.size() == 1 && l[0].k != ref::K::ID;
}

// random edit; besides the blind edits there are two kind-preserving ones that keep the source
// syntactically valid and so reach the static rules: rename an identifier to another identifier of
// the source (labels, callees, variables), replace a literal by a boundary literal; and two that
// remove a whole phrase: 2-4 consecutive tokens, or a keyword with everything up to the next keyword
// (`IN a, b` of a header, `OUT r`, `WITH 1, 2`, `THEN`...)
inline Edit random_edit(Tape &t, const std::vector<std::string> &toks, bool allow_meta) {
  size_t ntoks = toks.size();
  Edit e;
  e.pos = ntoks ? t.pick((unsigned)ntoks + 1) : 0;
  switch (t.weighted({3, 3, 3, 2, 1, 4, 2, 1, 2})) {
    case 0: e.k = Edit::DEL; break;
    case 1:
      e.k = Edit::INS;
      e.tok = pick_token(t, allow_meta);
      break;
    case 2:
      e.k = Edit::REP;
      e.tok = pick_token(t, allow_meta);
      break;
    case 3: e.k = Edit::SWAP; break;
    case 4: e.k = Edit::TRUNC; break;
    case 5: {
      e.k = Edit::REP;
      std::vector<size_t> ids;
      for (size_t i = 0; i < ntoks; i++)
        if (is_id_text(toks[i])) ids.push_back(i);
      if (ids.empty()) {
        e.k = Edit::DEL;
        break;
      }
      e.pos = ids[t.pick((unsigned)ids.size())];
      // (names of the hidden built-ins and other names starting with "__" are ordinary identifiers)
      static const char *NEW[] = {"zz", "f", "__INC__", "__nope", "__DEC__", "f"};
      e.tok = t.chance(1, 4) ? std::string(NEW[t.pick(6)]) : toks[ids[t.pick((unsigned)ids.size())]];
      break;
    }
    case 6: {
      e.k = Edit::REP;
      std::vector<size_t> ints;
      for (size_t i = 0; i < ntoks; i++)
        if (is_int_text(toks[i])) ints.push_back(i);
      if (ints.empty()) {
        e.k = Edit::SWAP;
        break;
      }
      e.pos = ints[t.pick((unsigned)ints.size())];
      static const char *B[] = {"2147483646", "2147483647", "2147483648", "0", "4294967296", "99999999999999999999", "7"};
      e.tok = B[t.pick(7)];
      break;
    }
    case 7:
      e.k = Edit::DELN;
      e.n = 2 + t.pick(3);
      break;
    case 8: {
      e.k = Edit::DELN;
      std::vector<size_t> kws;
      for (size_t i = 0; i < ntoks; i++)
        if (is_keyword_text(toks[i])) kws.push_back(i);
      if (kws.empty()) {
        e.n = 2;
        break;
      }
      size_t ki = t.pick((unsigned)kws.size());
      e.pos = kws[ki];
      e.n = (ki + 1 < kws.size() ? kws[ki + 1] : ntoks) - e.pos;
      break;
    }
  }
  return e;
}

// join tokens with single spaces, a line break every `per_line` tokens
inline std::string join(const std::vector<std::string> &toks, size_t per_line = 7) {
  std::string s;
  for (size_t i = 0; i < toks.size(); i++) {
    if (i) s += (i % per_line == 0) ? "\n" : " ";
    s += toks[i];
  }
  return s;
}

inline std::string soup(Tape &t, bool allow_meta, int maxn = 40) {
  int n = t.range(0, maxn);
  std::vector<std::string> toks;
  for (int i = 0; i < n; i++) toks.push_back(pick_token(t, allow_meta));
  return join(toks, 1 + t.pick(9));
}

}  // namespace gm
