/* Coverage shim for the one object that clang 14 cannot compile (Compiler/src/macro.cpp is built with g++
   -fsanitize-coverage=trace-pc; its callback is renamed to verif_cov_trace_pc with objcopy because libFuzzer 14
   rejects the legacy symbol). The callback feeds libFuzzer's extra-counters section, so edges inside macro.cpp
   still count as coverage. */
#include <stdint.h>
__attribute__((section("__libfuzzer_extra_counters"))) static uint8_t verif_counters[1 << 15];
void verif_cov_trace_pc(void) {
  uintptr_t pc = (uintptr_t)__builtin_return_address(0);
  verif_counters[(pc >> 2) & ((1 << 15) - 1)]++;
}
