// G-prog: typed program generator. Decodes a tape into an AST of the LOOP/WHILE/GOTO
// language (plus a fixed library of user macros that have a *native* meaning in the AST),
// and prints it in canonical or free layout, optionally split over included files.
// Includes no repository header.
#pragma once
#include <algorithm>
#include <cstring>
#include <map>
#include <set>
#include <string>
#include <vector>

#include "tape.hpp"

namespace gp {

using verif::Tape;

struct Val {
  enum K { CONST, VAR, INC, DEC, CALL, CALLP, ADD, MUL } k = CONST;
  std::string var;
  long long c = 0;
  int callee = -1;        // index into Program::defs
  std::vector<Val> args;  // CALL/CALLP arguments; ADD/MUL operands
};

struct Stmt {
  enum K { ASSIGN, LOOP, WHILE, GOTO, IFGOTO, STOP, M_IFELSE, M_SWAP, M_REPEAT } k = ASSIGN;
  std::vector<std::string> labels;
  std::string x, y;
  long long c = 0;
  Val v;
  std::vector<Stmt> body, body2;
  std::string target;
  int goto_raw = 0;  // unresolved jump target choice
  bool fwd = true;
  int share_grp = 0, share_occ = 0;  // >0: member of a statement block that occurs twice (printed once, included twice)
};

struct Routine {
  std::string name;
  std::vector<std::string> params;
  bool has_out = false;
  std::string out;
  std::vector<Stmt> body;
};

enum MacroBit { M_ADD = 1, M_MUL = 2, M_CALLP = 4, M_IF = 8, M_SWAPB = 16, M_REP = 32 };

struct Program {
  std::vector<Routine> defs;
  std::vector<Stmt> main;
  unsigned macros = 0;  // MacroBit set actually used
  int add_def = -1, mul_def = -1;
  // priorities of the arithmetic macros: normally * (20) binds tighter than & (10); with swap_prec it is the
  // other way round, and the AST is built accordingly ("any mix of priorities")
  bool swap_prec = false;
  int prio_add = 10, prio_mul = 20, prio_callp = 30;
  bool has_shared_block = false;
};

struct GenCfg {
  bool user_macros = true;
  bool jumps = true;
  bool whiles = true;
  bool calls = true;
  bool big = false;          // constants near 2^31
  bool loops_only = false;   // C16: neither WHILE nor GOTO
  bool force_call_in_loop = false;
  bool dup_params = false;   // C03 "unusual declarations" (never for semantic checks)
  bool arith_heavy = false;  // many mixed &/* expressions (their meaning depends on the macro priorities)
  bool wide_frame = false;   // the main body starts with 236-300 assignments to distinct variables: register indices >= 256
  int max_top = 8;
  int max_depth = 3;
  int max_stmts = 40;
};

// "x01" and "x1" are two variables (identifiers are compared as texts, not as numbers)
static const char *VARS[] = {"x0", "x1", "x2", "a", "b", "n", "acc", "Tmp_1", "x01"};
static const int NVARS = 9;
static const char *FNAMES[] = {"f", "g", "h", "dbl", "x0"};  // a program may share its name with a variable

struct Gen {
  Tape &t;
  GenCfg cfg;
  Program p;
  int stmts_left;
  // inside the argument list of the f(args) macro no lower-priority macro (<V>&<V>, <V>*<V>) may occur:
  // <ARGS> only matches complete values, and the lower-priority operand would first capture the bare name f
  int callp_depth = 0;
  std::set<std::string> classes;
  Gen(Tape &t, GenCfg c) : t(t), cfg(c), stmts_left(c.max_stmts) {}

  std::string var() { return VARS[t.weighted({6, 5, 4, 3, 3, 2, 1, 1, 1})]; }
  std::string var_in(const Routine *r) {
    if (r && !r->params.empty() && t.chance(1, 2)) return r->params[t.pick((unsigned)r->params.size())];
    return var();
  }
  long long small() { return (long long)t.weighted({2, 4, 4, 3, 2, 1}); }
  long long konst() {
    if (cfg.big && t.chance(1, 3)) {
      switch (t.pick(6)) {
        case 0: return 2147483646LL;
        case 1: return 2147483645LL;
        case 2: return 1073741824LL;
        case 3: return 1073741823LL;
        case 4: return 2147483000LL + t.pick(646);
        default: return 2000000000LL;
      }
    }
    return small();
  }

  // visible definitions: for each name the latest complete definition before `upto`
  std::vector<int> visible(int upto) {
    std::map<std::string, int> latest;
    for (int i = 0; i < upto; i++) latest[p.defs[(size_t)i].name] = i;
    std::vector<int> v;
    for (auto &e : latest)
      if (e.second != p.add_def && e.second != p.mul_def) v.push_back(e.second);
    std::sort(v.begin(), v.end());
    return v;
  }

  Val atom(const Routine *r, int upto, int depth) {
    Val v;
    unsigned w_call = (cfg.calls && depth < 3 && !visible(upto).empty()) ? 3 : 0;
    switch (t.weighted({3, 4, 2, 2, w_call})) {
      case 0:
        v.k = Val::CONST;
        v.c = konst();
        break;
      case 1:
        v.k = Val::VAR;
        v.var = var_in(r);
        break;
      case 2:
        v.k = Val::INC;
        v.var = var_in(r);
        v.c = konst();
        break;
      case 3:
        v.k = Val::DEC;
        v.var = var_in(r);
        v.c = konst();
        break;
      case 4: {
        std::vector<int> vis = visible(upto);
        v.callee = vis[t.pick((unsigned)vis.size())];
        size_t n = p.defs[(size_t)v.callee].params.size();
        v.k = (cfg.user_macros && n > 0 && t.chance(1, 3)) ? Val::CALLP : Val::CALL;
        if (v.k == Val::CALLP) {
          p.macros |= M_CALLP;
          callp_depth++;
        }
        for (size_t i = 0; i < n; i++) v.args.push_back(value(r, upto, depth + 1));
        if (v.k == Val::CALLP) callp_depth--;
        if (depth > 0) classes.insert("nested-call-argument");
        break;
      }
    }
    return v;
  }
  // T := A | T tight A ;  E := T | E loose T   (tight = the arithmetic macro with the higher priority)
  // Priority is dynamic ("highest priority among the steps currently possible"): an operand that
  // still contains an unexpanded lower-priority macro blocks the higher-priority pattern, and the
  // lower-priority one would then capture a neighbouring operand first. So operands of the tight
  // operator contain no loose operator (anywhere inside), and arguments of f(...) contain neither.
  int no_loose = 0;
  Val::K tight() const { return p.swap_prec ? Val::ADD : Val::MUL; }
  Val::K loose() const { return p.swap_prec ? Val::MUL : Val::ADD; }
  bool avail(Val::K k, int upto) const {
    int d = k == Val::ADD ? p.add_def : p.mul_def;
    return d >= 0 && d < upto;
  }
  void used(Val::K k) { p.macros |= (k == Val::ADD ? M_ADD : M_MUL); }
  Val term(const Routine *r, int upto, int depth) {
    int n = 0;
    if (cfg.user_macros && callp_depth == 0 && avail(tight(), upto))
      while (n < 3 && t.chance(cfg.arith_heavy ? 3 : 1, 8)) n++;
    if (n) no_loose++;
    Val v = atom(r, upto, depth);
    for (int i = 0; i < n; i++) {
      Val m;
      m.k = tight();
      m.args.push_back(v);
      m.args.push_back(atom(r, upto, depth));
      v = m;
      used(tight());
    }
    if (n) no_loose--;
    return v;
  }
  Val value(const Routine *r, int upto, int depth) {
    Val v = term(r, upto, depth);
    if (cfg.user_macros && callp_depth == 0 && no_loose == 0 && avail(loose(), upto)) {
      while (t.chance(cfg.arith_heavy ? 3 : 1, 7)) {
        Val m;
        m.k = loose();
        m.args.push_back(v);
        m.args.push_back(term(r, upto, depth));
        v = m;
        used(loose());
      }
    }
    return v;
  }

  Stmt assign(const Routine *r, int upto) {
    Stmt s;
    s.k = Stmt::ASSIGN;
    s.x = var_in(r);
    s.v = value(r, upto, 0);
    return s;
  }

  std::vector<Stmt> block(const Routine *r, int upto, int depth, bool in_loop, bool labels_ok, int maxn) {
    std::vector<Stmt> out;
    int n = 1 + (int)t.pick((unsigned)maxn);
    for (int i = 0; i < n && stmts_left > 0; i++) {
      stmts_left--;
      bool deep = depth < cfg.max_depth && stmts_left > 2;
      unsigned w_loop = deep ? 4 : 0;
      unsigned w_while = (deep && cfg.whiles && !cfg.loops_only) ? 2 : 0;
      unsigned w_goto = (cfg.jumps && !cfg.loops_only) ? 2 : 0;
      unsigned w_if = (cfg.jumps && !cfg.loops_only) ? 2 : 0;
      unsigned w_stop = 1;
      // (the library macros expand to LOOPs and assignments only, so they are allowed in LOOP-only programs)
      unsigned w_mif = (cfg.user_macros && deep) ? 1 : 0;
      unsigned w_swap = cfg.user_macros ? 1 : 0;
      unsigned w_rep = (cfg.user_macros && deep) ? 1 : 0;
      Stmt s;
      switch (t.weighted({10, w_loop, w_while, w_goto, w_if, w_stop, w_mif, w_swap, w_rep})) {
        case 0:
          s = assign(r, upto);
          if (in_loop && s.v.k != Val::CONST && s.v.k != Val::VAR) {
            // a call inside a loop is a class the properties name explicitly
          }
          break;
        case 1: {
          s.k = Stmt::LOOP;
          s.x = var_in(r);
          // make the loop iterate: usually give the bound a small value first
          if (t.chance(2, 3)) {
            Stmt pre;
            pre.k = Stmt::ASSIGN;
            pre.x = s.x;
            pre.v.k = Val::CONST;
            pre.v.c = 1 + (long long)t.pick(4);
            out.push_back(pre);
          }
          s.body = block(r, upto, depth + 1, true, labels_ok, 3);
          if (t.chance(1, 3)) {  // body assigns its own bound
            Stmt b;
            b.k = Stmt::ASSIGN;
            b.x = s.x;
            b.v.k = t.chance(1, 2) ? Val::CONST : Val::INC;
            b.v.var = s.x;
            b.v.c = small();
            s.body.push_back(b);
            classes.insert("loop-modifies-bound");
          }
          break;
        }
        case 2: {
          s.k = Stmt::WHILE;
          s.x = var_in(r);
          if (t.chance(3, 4)) {
            Stmt pre;
            pre.k = Stmt::ASSIGN;
            pre.x = s.x;
            pre.v.k = Val::CONST;
            pre.v.c = 1 + (long long)t.pick(3);
            out.push_back(pre);
          }
          s.body = block(r, upto, depth + 1, true, labels_ok, 3);
          if (t.chance(7, 8)) {  // the usual terminating shape
            Stmt d;
            d.k = Stmt::ASSIGN;
            d.x = s.x;
            d.v.k = Val::DEC;
            d.v.var = s.x;
            d.v.c = 1;
            s.body.push_back(d);
          }
          break;
        }
        case 3:
          s.k = Stmt::GOTO;
          s.goto_raw = t.byte();
          s.fwd = !t.chance(1, 4);
          break;
        case 4:
          s.k = Stmt::IFGOTO;
          s.x = var_in(r);
          s.c = small();
          s.goto_raw = t.byte();
          s.fwd = !t.chance(1, 4);
          break;
        case 5:
          if (t.chance(1, 3))
            s.k = Stmt::STOP;
          else
            s = assign(r, upto);
          break;
        case 6:
          s.k = Stmt::M_IFELSE;
          s.v = value(r, upto, 0);
          s.body = block(r, upto, depth + 1, in_loop, false, 2);
          s.body2 = block(r, upto, depth + 1, in_loop, false, 2);
          p.macros |= M_IF;
          break;
        case 7:
          s.k = Stmt::M_SWAP;
          s.x = var_in(r);
          s.y = var_in(r);
          p.macros |= M_SWAPB;
          break;
        case 8:
          s.k = Stmt::M_REPEAT;
          s.c = small();
          s.body = block(r, upto, depth + 1, true, false, 2);
          p.macros |= M_REP;
          break;
      }
      if (labels_ok && cfg.jumps && !cfg.loops_only && t.chance(1, 5)) s.labels.push_back("?");
      out.push_back(s);
    }
    if (out.empty()) out.push_back(assign(r, upto));  // statement budget exhausted: a block is never empty
    return out;
  }

  // label assignment and jump resolution for one routine body
  struct LabelRef {
    std::string name;
    int order;
  };
  void number_labels(std::vector<Stmt> &b, int &counter, int &order, std::vector<LabelRef> &labels, bool shared_names) {
    for (auto &s : b) {
      order++;
      for (auto &l : s.labels) {
        // a label may share its spelling with a variable: separate name spaces
        l = (shared_names && counter == 0) ? std::string("x1") : "l" + std::to_string(counter);
        counter++;
        labels.push_back({l, order});
      }
      number_labels(s.body, counter, order, labels, shared_names);
      number_labels(s.body2, counter, order, labels, shared_names);
    }
  }
  void resolve_jumps(std::vector<Stmt> &b, int &order, const std::vector<LabelRef> &labels) {
    for (auto &s : b) {
      order++;
      if (s.k == Stmt::GOTO || s.k == Stmt::IFGOTO) {
        std::vector<const LabelRef *> cand;
        if (s.fwd)
          for (auto &l : labels)
            if (l.order > order) cand.push_back(&l);
        if (cand.empty())
          for (auto &l : labels) cand.push_back(&l);
        s.target = cand[(size_t)s.goto_raw % cand.size()]->name;
      }
      resolve_jumps(s.body, order, labels);
      resolve_jumps(s.body2, order, labels);
    }
  }
  static bool has_jump(const std::vector<Stmt> &b) {
    for (auto &s : b)
      if (s.k == Stmt::GOTO || s.k == Stmt::IFGOTO || has_jump(s.body) || has_jump(s.body2)) return true;
    return false;
  }
  void finish_body(std::vector<Stmt> &b) {
    int counter = 0, order = 0;
    std::vector<LabelRef> labels;
    bool shared = t.chance(1, 6);
    number_labels(b, counter, order, labels, shared);
    if (labels.empty() && has_jump(b)) {
      // give the jumps somewhere to go: label the last top-level statement
      b.back().labels.push_back("l0");
      labels.push_back({"l0", 1 << 20});
    }
    order = 0;
    resolve_jumps(b, order, labels);
  }

  // a label-free run of 1-2 plain assignments of the main body is duplicated further down; the printers put it
  // into one file that is included at both places ("the same file included several times one after another
  // is allowed"; any split of the text over included files)
  void make_shared_block() {
    std::vector<size_t> starts;
    for (size_t i = 0; i < p.main.size(); i++)
      if (p.main[i].k == Stmt::ASSIGN && p.main[i].labels.empty()) starts.push_back(i);
    if (starts.empty()) return;
    size_t a = starts[t.pick((unsigned)starts.size())];
    size_t len = 1;
    if (a + 1 < p.main.size() && p.main[a + 1].k == Stmt::ASSIGN && p.main[a + 1].labels.empty() && t.chance(1, 2)) len = 2;
    size_t gap = t.pick(3);  // 0: twice in a row
    size_t at = std::min(p.main.size(), a + len + gap);
    std::vector<Stmt> copy(p.main.begin() + (long)a, p.main.begin() + (long)(a + len));
    for (size_t k = 0; k < len; k++) {
      p.main[a + k].share_grp = 1;
      p.main[a + k].share_occ = 1;
      copy[k].share_grp = 1;
      copy[k].share_occ = 2;
    }
    p.main.insert(p.main.begin() + (long)at, copy.begin(), copy.end());
    // both occurrences must be followed by a statement (so that both end in ';' in the canonical layout)
    if (at + len == p.main.size()) {
      Stmt tail;
      tail.k = Stmt::ASSIGN;
      tail.x = "n";
      tail.v.k = Val::VAR;
      tail.v.var = "n";
      p.main.push_back(tail);
    }
    p.has_shared_block = true;
    classes.insert("same-file-included-twice");
  }

  Program generate() {
    if (cfg.user_macros) {
      p.swap_prec = t.chance(1, 3);
      static const int LO[] = {10, 11, 15}, HI[] = {20, 21, 25};
      int lo = LO[t.pick(3)], hi = HI[t.pick(3)];
      p.prio_add = p.swap_prec ? hi : lo;
      p.prio_mul = p.swap_prec ? lo : hi;
      p.prio_callp = 30 + (int)t.pick(3);
    }
    bool want_shared = t.chance(1, 4);
    // optional arithmetic helper programs for the <V> & <V> / <V> * <V> macros
    if (cfg.user_macros && (cfg.arith_heavy || t.chance(1, 2))) {
      Routine add;
      add.name = "add";
      add.params = {"p", "q"};
      {
        Stmt s1;
        s1.k = Stmt::ASSIGN;
        s1.x = "x0";
        s1.v.k = Val::VAR;
        s1.v.var = "p";
        Stmt lp;
        lp.k = Stmt::LOOP;
        lp.x = "q";
        Stmt inc;
        inc.k = Stmt::ASSIGN;
        inc.x = "x0";
        inc.v.k = Val::INC;
        inc.v.var = "x0";
        inc.v.c = 1;
        lp.body.push_back(inc);
        add.body = {s1, lp};
      }
      p.defs.push_back(add);
      p.add_def = 0;
      if (cfg.arith_heavy || t.chance(1, 2)) {
        Routine mul;
        mul.name = "mul";
        mul.params = {"p", "q"};
        Stmt lp;
        lp.k = Stmt::LOOP;
        lp.x = "p";
        Stmt acc;
        acc.k = Stmt::ASSIGN;
        acc.x = "x0";
        acc.v.k = Val::CALL;
        acc.v.callee = 0;
        Val a0, a1;
        a0.k = Val::VAR;
        a0.var = "x0";
        a1.k = Val::VAR;
        a1.var = "q";
        acc.v.args = {a0, a1};
        lp.body.push_back(acc);
        mul.body = {lp};
        p.defs.push_back(mul);
        p.mul_def = 1;
      }
    }
    int ndefs = cfg.calls ? (int)t.weighted({2, 4, 3, 2, 1, 1}) : 0;
    for (int d = 0; d < ndefs; d++) {
      Routine r;
      r.name = FNAMES[t.weighted({5, 4, 3, 2, 1})];
      if (r.name == "x0") classes.insert("program-named-like-variable");
      for (auto &o : p.defs)
        if (o.name == r.name) classes.insert("redefined-program-name");
      int np = (int)t.weighted({2, 4, 3, 2, 1});
      static const char *PN[] = {"a", "b", "n", "x1", "x0", "x01"};
      std::vector<std::string> pool(PN, PN + 6);
      for (int i = 0; i < np; i++) {
        size_t k = t.pick((unsigned)pool.size());
        r.params.push_back(pool[k]);
        if (!cfg.dup_params || !t.chance(1, 3)) pool.erase(pool.begin() + (long)k);
      }
      if (np > 0 && t.chance(1, 2)) {  // PORTS -> in ARGS OPORTS: OUT needs IN
        r.has_out = true;
        if (!r.params.empty() && t.chance(1, 3)) {
          r.out = r.params[t.pick((unsigned)r.params.size())];
          classes.insert("out-is-parameter");
        } else
          r.out = var();
      }
      int upto = (int)p.defs.size();
      if (cfg.wide_frame && d == 0 && t.chance(1, 2)) {
        // a callee with a frame of about 256 registers
        int n = 236 + (int)t.pick(65);
        for (int i = 0; i < n; i++) {
          Stmt s;
          s.k = Stmt::ASSIGN;
          s.x = "w" + std::to_string(i);
          s.v.k = Val::CONST;
          s.v.c = 1 + i % 7;
          r.body.push_back(s);
        }
        classes.insert("wide-callee-frame(~256-registers)");
      }
      {
        std::vector<Stmt> b = block(&r, upto, 0, false, true, 4);
        r.body.insert(r.body.end(), b.begin(), b.end());
      }
      if (t.chance(2, 3)) {  // make the result depend on something
        Stmt s;
        s.k = Stmt::ASSIGN;
        s.x = r.has_out ? r.out : "x0";
        s.v = value(&r, upto, 0);
        r.body.push_back(s);
      }
      finish_body(r.body);
      p.defs.push_back(r);
    }
    int upto = (int)p.defs.size();
    if (cfg.force_call_in_loop && !visible(upto).empty()) {
      Stmt pre;
      pre.k = Stmt::ASSIGN;
      pre.x = "n";
      pre.v.k = Val::CONST;
      pre.v.c = 2 + (long long)t.pick(4);
      Stmt lp;
      lp.k = Stmt::LOOP;
      lp.x = "n";
      Stmt c;
      c.k = Stmt::ASSIGN;
      c.x = var();
      std::vector<int> vis = visible(upto);
      c.v.k = Val::CALL;
      c.v.callee = vis[t.pick((unsigned)vis.size())];
      for (size_t i = 0; i < p.defs[(size_t)c.v.callee].params.size(); i++) c.v.args.push_back(value(nullptr, upto, 1));
      lp.body.push_back(c);
      p.main.push_back(pre);
      p.main.push_back(lp);
    }
    if (cfg.wide_frame) {
      int n = 236 + (int)t.pick(65);  // frame sizes around 256, often exactly a multiple of it
      for (int i = 0; i < n; i++) {
        Stmt s;
        s.k = Stmt::ASSIGN;
        s.x = "w" + std::to_string(i);
        s.v.k = Val::CONST;
        s.v.c = 1 + i % 7;
        p.main.push_back(s);
      }
      classes.insert("wide-frame(~256-registers)");
    }
    std::vector<Stmt> rest = block(nullptr, upto, 0, false, true, cfg.max_top);
    p.main.insert(p.main.end(), rest.begin(), rest.end());
    if (want_shared) make_shared_block();
    finish_body(p.main);
    return p;
  }
};

// ----------------------------------------------------------------------------- analysis helpers
inline void val_vars(const Val &v, std::set<std::string> &out) {
  if (v.k == Val::VAR || v.k == Val::INC || v.k == Val::DEC) out.insert(v.var);
  for (auto &a : v.args) val_vars(a, out);
}
inline void stmt_vars(const std::vector<Stmt> &b, std::set<std::string> &out) {
  for (auto &s : b) {
    switch (s.k) {
      case Stmt::ASSIGN:
        out.insert(s.x);
        val_vars(s.v, out);
        break;
      case Stmt::LOOP:
      case Stmt::WHILE:
      case Stmt::IFGOTO: out.insert(s.x); break;
      case Stmt::M_IFELSE: val_vars(s.v, out); break;
      case Stmt::M_SWAP:
        out.insert(s.x);
        out.insert(s.y);
        break;
      default: break;
    }
    stmt_vars(s.body, out);
    stmt_vars(s.body2, out);
  }
}
inline std::set<std::string> routine_vars(const Routine &r) {
  std::set<std::string> v(r.params.begin(), r.params.end());
  stmt_vars(r.body, v);
  v.insert(r.has_out ? r.out : std::string("x0"));
  return v;
}
inline std::set<std::string> main_vars(const Program &p) {
  std::set<std::string> v;
  stmt_vars(p.main, v);
  return v;
}

struct Features {
  bool call_in_loop = false, nested_call_arg = false, jump_into_loop = false, jump_out_of_loop = false,
       backward_jump = false, stop_in_callee = false, macro_in_own_slot = false, has_while = false, has_goto = false,
       has_loop = false, loop_nest2 = false, has_call = false;
};
inline bool val_has_call(const Val &v) {
  if (v.k == Val::CALL || v.k == Val::CALLP || v.k == Val::ADD || v.k == Val::MUL) return true;
  for (auto &a : v.args)
    if (val_has_call(a)) return true;
  return false;
}
inline void label_depths(const std::vector<Stmt> &b, std::vector<int> path, int &counter,
                         std::map<std::string, std::pair<std::vector<int>, int>> &out) {
  for (auto &s : b) {
    int id = ++counter;
    for (auto &l : s.labels) out[l] = {path, id};
    if (s.k == Stmt::LOOP || s.k == Stmt::WHILE || s.k == Stmt::M_REPEAT || s.k == Stmt::M_IFELSE) {
      std::vector<int> p2 = path;
      p2.push_back(id);
      label_depths(s.body, p2, counter, out);
      label_depths(s.body2, p2, counter, out);
    }
  }
}
inline void scan_features(const std::vector<Stmt> &b, std::vector<int> path, int &counter,
                          const std::map<std::string, std::pair<std::vector<int>, int>> &labels, bool in_loop,
                          int loop_depth, bool in_callee, int in_mif, Features &f) {
  for (auto &s : b) {
    int id = ++counter;
    if (s.k == Stmt::ASSIGN && val_has_call(s.v)) {
      f.has_call = true;
      if (in_loop) f.call_in_loop = true;
      for (auto &a : s.v.args)
        if (val_has_call(a)) f.nested_call_arg = true;
    }
    if (s.k == Stmt::STOP && in_callee) f.stop_in_callee = true;
    if (s.k == Stmt::GOTO || s.k == Stmt::IFGOTO) {
      f.has_goto = true;
      auto it = labels.find(s.target);
      if (it != labels.end()) {
        const std::vector<int> &lp = it->second.first;
        // into: the label's loop path is not a prefix of ours
        bool prefix = lp.size() <= path.size() && std::equal(lp.begin(), lp.end(), path.begin());
        if (!prefix) f.jump_into_loop = true;
        if (lp.size() < path.size() && prefix) f.jump_out_of_loop = true;
        if (it->second.second <= id) f.backward_jump = true;
      }
    }
    bool loopy = s.k == Stmt::LOOP || s.k == Stmt::WHILE || s.k == Stmt::M_REPEAT;
    if (s.k == Stmt::WHILE) f.has_while = true;
    if (s.k == Stmt::LOOP) {
      f.has_loop = true;
      if (loop_depth >= 1) f.loop_nest2 = true;
    }
    if (s.k == Stmt::M_IFELSE && in_mif) f.macro_in_own_slot = true;
    if (loopy || s.k == Stmt::M_IFELSE) {
      std::vector<int> p2 = path;
      p2.push_back(id);
      int mif = in_mif + (s.k == Stmt::M_IFELSE ? 1 : 0);
      scan_features(s.body, p2, counter, labels, in_loop || loopy, loop_depth + (s.k == Stmt::LOOP ? 1 : 0), in_callee,
                    mif, f);
      scan_features(s.body2, p2, counter, labels, in_loop || loopy, loop_depth, in_callee, mif, f);
    }
  }
}
inline Features features(const Program &p) {
  Features f;
  auto one = [&](const std::vector<Stmt> &b, bool callee) {
    std::map<std::string, std::pair<std::vector<int>, int>> labels;
    int c = 0;
    label_depths(b, {}, c, labels);
    c = 0;
    scan_features(b, {}, c, labels, false, 0, callee, 0, f);
  };
  for (auto &r : p.defs) one(r.body, true);
  one(p.main, false);
  return f;
}

// ----------------------------------------------------------------------------- printing
enum Hint { H_NONE = 0, H_STMT = 1, H_END = 2, H_DEFLINE = 3 };
struct Tk {
  std::string text;
  int hint;
};

struct Printer {
  const Program &p;
  Tape *sp;  // spelling choices (nullptr: canonical upper case)
  std::vector<Tk> out;
  std::map<const Stmt *, size_t> first_tok, end_tok;  // token index of a statement's first token / its END
  size_t share_a[3] = {0, 0, 0}, share_b[3] = {0, 0, 0};  // token range [a,b) of occurrence 1 and 2 of the shared block
  std::map<const Routine *, size_t> rend_tok;          // token index of a routine's END
  Printer(const Program &p, Tape *sp) : p(p), sp(sp) {}

  std::string kw(const char *upper) {
    std::string u = upper;
    if (!sp) return u;
    switch (sp->weighted({3, 1, 1})) {
      case 0: return u;
      case 1: {
        std::string s = u;
        for (size_t i = 1; i < s.size(); i++) s[i] = (char)tolower(s[i]);
        return s;
      }
      default: {
        std::string s = u;
        for (auto &c : s) c = (char)tolower(c);
        return s;
      }
    }
  }
  std::string kw_program() {
    if (!sp) return "PROGRAM";
    static const char *s[] = {"PROGRAM", "Program", "program", "PROG", "Prog", "prog"};
    return s[sp->pick(6)];
  }
  void e(const std::string &s, int hint = H_NONE) { out.push_back({s, hint}); }

  void val(const Val &v) {
    switch (v.k) {
      case Val::CONST: e(std::to_string(v.c)); break;
      case Val::VAR: e(v.var); break;
      case Val::INC:
        e(v.var);
        e("+");
        e(std::to_string(v.c));
        break;
      case Val::DEC:
        e(v.var);
        e("-");
        e(std::to_string(v.c));
        break;
      case Val::CALL:
        e(kw("RUN"));
        e(p.defs[(size_t)v.callee].name);
        e(kw("WITH"));
        for (size_t i = 0; i < v.args.size(); i++) {
          if (i) e(",");
          val(v.args[i]);
        }
        e(kw("END"));
        break;
      case Val::CALLP:
        e(p.defs[(size_t)v.callee].name);
        e("(");
        for (size_t i = 0; i < v.args.size(); i++) {
          if (i) e(",");
          val(v.args[i]);
        }
        e(")");
        break;
      case Val::ADD:
        val(v.args[0]);
        e("&");
        val(v.args[1]);
        break;
      case Val::MUL:
        val(v.args[0]);
        e("*");
        val(v.args[1]);
        break;
    }
  }

  void stmts(const std::vector<Stmt> &b) {
    for (size_t i = 0; i < b.size(); i++) {
      if (i) e(";");
      stmt(b[i]);
    }
  }
  void stmt(const Stmt &s) {
    stmt_inner(s);
    if (s.share_grp) {
      // ranges grow over the consecutive members of one occurrence
      if (share_b[s.share_occ] == 0) share_a[s.share_occ] = first_tok[&s];
      share_b[s.share_occ] = out.size();
    }
  }
  void stmt_inner(const Stmt &s) {
    bool first = true;
    first_tok[&s] = out.size();
    auto start = [&](const std::string &tok) {
      e(tok, first ? H_STMT : H_NONE);
      first = false;
    };
    for (auto &l : s.labels) {
      start(l);
      e(":");
    }
    switch (s.k) {
      case Stmt::ASSIGN:
        start(s.x);
        e(":=");
        val(s.v);
        break;
      case Stmt::LOOP:
        start(kw("LOOP"));
        e(s.x);
        e(kw("DO"));
        stmts(s.body);
        end_tok[&s] = out.size();
        e(kw("END"), H_END);
        break;
      case Stmt::WHILE:
        start(kw("WHILE"));
        e(s.x);
        e("!= 0");
        e(kw("DO"));
        stmts(s.body);
        end_tok[&s] = out.size();
        e(kw("END"), H_END);
        break;
      case Stmt::GOTO:
        start(kw("GOTO"));
        e(s.target);
        break;
      case Stmt::IFGOTO:
        start(kw("IF"));
        e(s.x);
        e("=");
        e(std::to_string(s.c));
        e(kw("THEN"));
        e(kw("GOTO"));
        e(s.target);
        break;
      case Stmt::STOP: start(kw("STOP")); break;
      case Stmt::M_IFELSE:
        start(kw("IF"));
        val(s.v);
        e(kw("THEN"));
        stmts(s.body);
        e("ELSE", H_END);
        stmts(s.body2);
        e(kw("END"), H_END);
        break;
      case Stmt::M_SWAP:
        start("SWAP");
        e(s.x);
        e(s.y);
        break;
      case Stmt::M_REPEAT:
        start("REPEAT");
        e(std::to_string(s.c));
        e("TIMES");
        stmts(s.body);
        e(kw("END"), H_END);
        break;
    }
  }
  void routine(const Routine &r) {
    e(kw_program(), H_STMT);
    e(r.name);
    if (!r.params.empty() || r.has_out) {
      // the grammar needs IN with at least one parameter before OUT
    }
    if (!r.params.empty()) {
      e(kw("IN"));
      for (size_t i = 0; i < r.params.size(); i++) {
        if (i) e(",");
        e(r.params[i]);
      }
      if (r.has_out) {
        e(kw("OUT"));
        e(r.out);
      }
    }
    e(kw("DO"));
    stmts(r.body);
    rend_tok[&r] = out.size();
    e(kw("END"), H_END);
  }
  void program() {
    for (auto &r : p.defs) routine(r);
    stmts(p.main);
  }
};

// the fixed macro library; each definition on one line
inline std::vector<std::string> macro_lines(const Program &p) {
  unsigned bits = p.macros;
  std::vector<std::string> l;
  if (bits & M_ADD) l.push_back("DEFINE PRIO " + std::to_string(p.prio_add) + " <V> & <V> AS RUN add WITH $0, $1 END END DEFINE");
  if (bits & M_MUL) l.push_back("Define Priority " + std::to_string(p.prio_mul) + " <Value> * <v> As run mul with $0, $1 end Enddef");
  if (bits & M_CALLP) l.push_back("def prio " + std::to_string(p.prio_callp) + " <ID> ( <ARGS> ) as RUN $0 WITH $1 END enddef");
  if (bits & M_IF)
    l.push_back(
        "DEFINE IF <V> THEN <P> ELSE <P> END AS #0 := $0; #1 := 1; LOOP #0 DO #1 := 0 END; #2 := 1; LOOP #1 DO #2 := 0 "
        "END; LOOP #2 DO $1 END; LOOP #1 DO $2 END END DEFINE");
  if (bits & M_SWAPB) l.push_back("DEFINE SWAP <ID> <id> AS #0 := $0; $0 := $1; $1 := #0 ENDDEF");
  if (bits & M_REP) l.push_back("DEFINE REPEAT <INT> TIMES <PROGRAM> END AS #0 := $0; LOOP #0 DO $1 END END DEFINE");
  return l;
}

// A routine without parameters cannot declare OUT (PORTS -> in ARGS OPORTS): normalise the AST
inline void normalise(Program &p) {
  for (auto &r : p.defs)
    if (r.params.empty()) {
      r.has_out = false;
      r.out.clear();
    }
}

inline bool is_punct(const std::string &s) {
  return s == ";" || s == "," || s == ":=" || s == ":" || s == "(" || s == ")";
}

struct Layout {
  std::map<std::string, std::string> files;
  std::string main = "main.theo";
  int blank_includes = 0;  // free layout: includes of files without any token
  int body_includes = 0;   // free layout: macro bodies whose tail is an included file
  // canonical layout only: (file, line) of every printed token, and the statement/END token indices
  std::vector<std::pair<std::string, int>> tokpos;
  std::map<const Stmt *, size_t> first_tok, end_tok;
  std::map<const Routine *, size_t> rend_tok;
};

// file names: "all file maps" includes long paths and names with unusual characters
inline std::string name_prefix(Tape &t) {
  switch (t.weighted({8, 1, 1, 1, 1, 1, 1})) {
    case 5: return "__";   // user files whose names look reserved (only "__standards__" is)
    case 6: return "Cc/";  // names that differ only in letter case (see twin_name)
    case 1: return "a very/long/path/with some spaces/and-a-lot-of-characters/so that fixed size buffers overflow/0123456789/0123456789/0123456789/x/";
    case 2: return "d\xc3\xa4 r/#1:$0;";
    case 3: return "_";
    case 4: return std::string("n\0", 2);  // names that agree up to an embedded NUL byte
    default: return "";
  }
}

// scheme "Cc/": the n-th file of a family is a case variant of the family's stem ("Cc/main.theo" is the main file, so
// the first part "Cc/MAIN.theo" is its twin); unique per (stem, n)
inline std::string twin_name(const std::string &stem, int n) {
  std::string v = stem;
  switch ((n - 1) % 6) {
    case 0: for (auto &c : v) c = (char)toupper((unsigned char)c); break;
    case 1: v[0] = (char)toupper((unsigned char)v[0]); break;
    case 2: for (size_t i = 1; i < v.size(); i++) v[i] = (char)toupper((unsigned char)v[i]); break;
    case 3: v[v.size() - 1] = (char)toupper((unsigned char)v[v.size() - 1]); break;
    case 4: v[0] = (char)toupper((unsigned char)v[0]); v[1] = (char)toupper((unsigned char)v[1]); break;
    case 5: v[1] = (char)toupper((unsigned char)v[1]); break;
  }
  return "Cc/" + v + (n > 6 ? std::to_string(n) : std::string()) + ".theo";
}

// canonical layout: one statement per line, labels on their statement's line, header and END on own lines.
// `nfiles` > 1 moves runs of whole lines into included files (include directive on its own line).
inline Layout layout_canonical(const Program &p, Tape &t, int nfiles) {
  Printer pr(p, nullptr);
  pr.program();
  struct Line {
    std::string text;
    std::vector<size_t> toks;
  };
  std::vector<Line> lines;
  for (auto &m : macro_lines(p)) lines.push_back({m, {}});
  Line cur;
  for (size_t i = 0; i < pr.out.size(); i++) {
    const Tk &k = pr.out[i];
    if ((k.hint == H_STMT || k.hint == H_END) && !cur.text.empty()) {
      lines.push_back(cur);
      cur = Line();
    }
    if (!cur.text.empty() && !(k.text == ";" || k.text == ",")) cur.text += " ";
    cur.text += k.text;
    cur.toks.push_back(i);
    // body of a block starts on a new line: break after DO / TIMES / the macro's ELSE and THEN
    bool header_end = (k.text == "DO") || (k.text == "ELSE" && k.hint == H_END) || k.text == "TIMES";
    if (k.text == "THEN" && i + 1 < pr.out.size() && pr.out[i + 1].hint == H_STMT) header_end = true;
    if (header_end) {
      lines.push_back(cur);
      cur = Line();
    }
  }
  if (!cur.text.empty()) lines.push_back(cur);
  Layout L;
  std::string prefix = name_prefix(t);
  L.main = prefix + "main.theo";
  bool digit_names = prefix == "_";
  if (digit_names) L.main = "m";
  L.first_tok = pr.first_tok;
  L.end_tok = pr.end_tok;
  L.rend_tok = pr.rend_tok;
  L.tokpos.assign(pr.out.size(), {L.main, 0});
  // file assignment: a list of entries, each either a line or an include of a nested list
  struct Entry {
    bool is_inc;
    Line line;
    std::string inc;
  };
  std::map<std::string, std::vector<Entry>> fl;
  // the duplicated statement block: its lines go into one file that is included at both places; the lines of the
  // second occurrence are the same text, their tokens are located in the shared file as well
  bool share = p.has_shared_block && pr.share_b[1] > pr.share_a[1] && pr.share_b[2] > pr.share_a[2] && t.chance(3, 4);
  std::string shared_name = prefix + "shared.theo";
  if (share) {
    auto lines_of = [&](size_t a, size_t b) {
      std::vector<size_t> idx;
      for (size_t li = 0; li < lines.size(); li++)
        for (size_t ti : lines[li].toks)
          if (ti >= a && ti < b) {
            idx.push_back(li);
            break;
          }
      return idx;
    };
    std::vector<size_t> l1 = lines_of(pr.share_a[1], pr.share_b[1]), l2 = lines_of(pr.share_a[2], pr.share_b[2]);
    bool same = l1.size() == l2.size() && !l1.empty();
    for (size_t k = 0; same && k < l1.size(); k++)
      if (lines[l1[k]].text != lines[l2[k]].text) same = false;
    // whole lines only: every token of those lines belongs to the block (plus the trailing ';')
    // (two inclusions directly after one another would put two statements on the same (file, line) in a row,
    // which is no longer "one statement per line" for the stepping model: the canonical layout needs a line between)
    if (same && l1.back() + 1 < l2.front()) {
      std::vector<Entry> body;
      for (size_t li : l1) body.push_back({false, lines[li], ""});
      // second occurrence: same file lines, so give its tokens the positions of the first occurrence's lines
      for (size_t k = 0; k < l1.size(); k++)
        for (size_t ti : lines[l2[k]].toks) body[k].line.toks.push_back(ti);
      fl[shared_name] = body;
      for (size_t li = 0; li < lines.size(); li++) {
        if (li == l1.front() || li == l2.front())
          fl[L.main].push_back({true, Line(), shared_name});
        else if (std::find(l1.begin(), l1.end(), li) != l1.end() || std::find(l2.begin(), l2.end(), li) != l2.end())
          continue;
        else
          fl[L.main].push_back({false, lines[li], ""});
      }
    } else
      share = false;
  }
  if (!share)
    for (auto &l : lines) fl[L.main].push_back({false, l, ""});
  for (int f = 1; f < nfiles; f++) {
    // pick a file that has at least 2 entries and move a run of its entries out
    std::vector<std::string> names;
    for (auto &e : fl)
      if (e.second.size() >= 2) names.push_back(e.first);
    if (names.empty()) break;
    std::string from = names[t.pick((unsigned)names.size())];
    std::vector<Entry> &src = fl[from];
    size_t a = t.pick((unsigned)src.size());
    size_t len = 1 + t.pick((unsigned)std::min<size_t>(src.size() - a, 6));
    if (len == src.size()) len--;
    if (len == 0) continue;
    if (from == shared_name) continue;  // the shared file stays as it is
    std::string name = digit_names ? "m" + std::to_string(f) : prefix == "Cc/" ? twin_name("main", f) : prefix + "inc" + std::to_string(f) + ".theo";
    std::vector<Entry> moved(src.begin() + (long)a, src.begin() + (long)(a + len));
    src.erase(src.begin() + (long)a, src.begin() + (long)(a + len));
    src.insert(src.begin() + (long)a, Entry{true, Line(), name});
    fl[name] = moved;
  }
  int main_offset = t.chance(1, 40) ? 65530 + (int)t.pick(12) : 0;  // line numbers beyond 16 bits
  for (auto &e : fl) {
    std::string text;
    int ln = 0;
    if (e.first == L.main && main_offset) {
      text.assign((size_t)main_offset, '\n');
      ln = main_offset;
    }
    for (auto &en : e.second) {
      ln++;
      if (en.is_inc)
        text += "include \"" + en.inc + "\"\n";
      else {
        text += en.line.text + "\n";
        for (size_t ti : en.line.toks) L.tokpos[ti] = {e.first, ln};
      }
    }
    L.files[e.first] = text;
  }
  return L;
}

// free layout: arbitrary separators between any two tokens, all keyword spellings, comments,
// macro definitions anywhere at top level of the text, arbitrary token-boundary file splits.
// macro definitions in free layout: body on its own line, or two definitions on one line
inline std::string defs_free(const std::vector<std::string> &defs, Tape &t, const std::string &prefix,
                             std::map<std::string, std::string> &files, int &body_includes) {
  std::string out;
  for (size_t i = 0; i < defs.size(); i++) {
    std::string d = defs[i];
    // the tail of a macro body may live in a file of its own (an include inside the body)
    if (t.chance(1, 6)) {
      size_t as = d.find(" AS ");
      if (as == std::string::npos) as = d.find(" As ");
      if (as == std::string::npos) as = d.find(" as ");
      size_t term = std::string::npos;
      for (const char *e : {" END DEFINE", " Enddef", " enddef", " ENDDEF"}) {
        size_t q = d.rfind(e);
        if (q != std::string::npos && q + strlen(e) == d.size()) term = q;
      }
      std::vector<size_t> cuts;
      if (as != std::string::npos && term != std::string::npos)
        for (size_t q = d.find("; ", as); q != std::string::npos && q < term; q = d.find("; ", q + 1)) cuts.push_back(q + 1);
      if (!cuts.empty()) {
        size_t cut = cuts[t.pick((unsigned)cuts.size())];
        std::string name = prefix + "body" + std::to_string(i) + ".theo";
        files[name] = d.substr(cut + 1, term - cut - 1);
        d = d.substr(0, cut) + " include \"" + name + "\"" + d.substr(term);
        body_includes++;
      }
    }
    if (t.chance(1, 4)) {
      size_t as = d.find(" AS ");
      if (as == std::string::npos) as = d.find(" As ");
      if (as == std::string::npos) as = d.find(" as ");
      if (as != std::string::npos) d = d.substr(0, as + 3) + "\n" + d.substr(as + 4);
    }
    out += d;
    out += (i + 1 < defs.size() && t.chance(1, 4)) ? " " : "\n";
  }
  return out;
}

inline Layout layout_free(const Program &p, Tape &t, int nfiles) {
  Printer pr(p, &t);
  pr.program();
  // token texts, with the macro definitions as pre-formatted chunks in front or in their own file
  std::vector<std::string> toks;
  std::vector<std::string> defs = macro_lines(p);
  Layout L;
  std::string prefix = name_prefix(t);
  L.main = prefix + "main.theo";
  bool digit_names = prefix == "_";  // scheme "m", "m1", "m2", ...: one name is another name plus a digit
  if (digit_names) L.main = "m";
  bool defs_in_file = !defs.empty() && nfiles > 1 && t.chance(1, 2);
  std::string defs_text = defs_free(defs, t, prefix, L.files, L.body_includes);
  for (auto &k : pr.out) toks.push_back(k.text);
  // separators; in a quarter of the layouts a separator may also be an include of a file that contributes no token
  // (empty, blank, or a comment only) - anywhere between two tokens, also in the middle of a statement
  bool blank_inc = t.chance(1, 4);
  std::string blank_name = prefix + "blank.theo";
  if (blank_inc) {
    static const char *BL[] = {"", " \n\t", "// nothing here\n", "\n\n"};
    L.files[blank_name] = BL[t.pick(4)];
  }
  std::vector<std::string> seps(toks.size() + 1, " ");
  for (size_t i = 1; i < toks.size(); i++) {
    bool glue_ok = (is_punct(toks[i - 1]) || is_punct(toks[i])) && !(toks[i - 1] == ":" && toks[i][0] == '=');
    switch (t.weighted({8, 3, (unsigned)(glue_ok ? 4 : 0), 1, 1, 1, (unsigned)(blank_inc ? 1 : 0)})) {
      case 6: seps[i] = " include \"" + blank_name + "\"\n"; L.blank_includes++; break;
      case 0: seps[i] = " "; break;
      case 1: seps[i] = "\n"; break;
      case 2: seps[i] = ""; break;
      case 3: seps[i] = " // note ; END := 1\n"; break;
      case 4: seps[i] = "\t \n\n  "; break;
      case 5: seps[i] = "  "; break;
    }
  }
  seps[0] = "";
  seps[toks.size()] = t.chance(1, 2) ? "\n" : "";
  // cut points: [a,b) token ranges moved to files, disjoint; `name` set = a file that several cuts share
  struct Cut {
    size_t a, b;
    std::string name;
  };
  std::vector<Cut> cuts;
  if (p.has_shared_block && pr.share_b[1] > pr.share_a[1] && pr.share_b[2] > pr.share_a[2] && t.chance(3, 4)) {
    // the duplicated statement block goes into one file that is included at both places
    cuts.push_back({pr.share_a[1], pr.share_b[1], prefix + "shared.theo"});
    cuts.push_back({pr.share_a[2], pr.share_b[2], prefix + "shared.theo"});
  }
  for (int f = 1; f < nfiles && toks.size() >= 2; f++) {
    size_t a = t.pick((unsigned)toks.size());
    size_t len = 1 + t.pick((unsigned)std::min<size_t>(toks.size() - a, 24));
    bool overlap = false;
    for (auto &c : cuts)
      if (!(a + len <= c.a || a >= c.b)) overlap = true;
    if (!overlap) cuts.push_back({a, a + len, ""});
  }
  std::sort(cuts.begin(), cuts.end(), [](const Cut &x, const Cut &y) { return x.a < y.a; });
  size_t pos = 0;
  int fno = 0;
  std::string text;
  if (!defs.empty()) {
    if (defs_in_file) {
      L.files[prefix + "macros.theo"] = defs_text;
      text += "include \"" + prefix + "macros.theo\"\n";
    } else
      text += defs_text;
  }
  static const char *inc[] = {"include", "Include", "INCLUDE"};
  for (auto &c : cuts) {
    for (size_t i = pos; i < c.a; i++) text += seps[i] + toks[i];
    std::string name = c.name;
    if (name.empty()) {
      ++fno;
      name = digit_names ? "m" + std::to_string(fno) : prefix == "Cc/" ? twin_name("main", fno) : prefix + "part" + std::to_string(fno) + ".theo";
      std::string body;
      for (size_t i = c.a; i < c.b; i++) body += (i == c.a ? "" : seps[i]) + toks[i];
      // optionally nest: split the part once more
      if (c.b - c.a >= 4 && t.chance(1, 3)) {
        size_t mid = c.a + 1 + t.pick((unsigned)(c.b - c.a - 2));
        std::string n2 = digit_names ? "m" + std::to_string(fno) + "2" : prefix == "Cc/" ? twin_name("sub", fno) : prefix + "sub" + std::to_string(fno) + ".theo";
        std::string b1, b2;
        for (size_t i = c.a; i < mid; i++) b1 += (i == c.a ? "" : seps[i]) + toks[i];
        for (size_t i = mid; i < c.b; i++) b2 += (i == mid ? "" : seps[i]) + toks[i];
        L.files[n2] = b2;
        body = b1 + " INCLUDE \"" + n2 + "\"";
      }
      L.files[name] = body;
    } else if (!L.files.count(name)) {
      std::string body;
      for (size_t i = c.a; i < c.b; i++) body += (i == c.a ? "" : seps[i]) + toks[i];
      L.files[name] = body;
    }
    text += (seps[c.a].empty() ? std::string(" ") : seps[c.a]) + inc[t.pick(3)] + " \"" + name + "\"";
    pos = c.b;
  }
  for (size_t i = pos; i < toks.size(); i++) text += seps[i] + toks[i];
  text += seps[toks.size()];
  if (t.chance(1, 40)) text = std::string((size_t)(65530 + t.pick(12)), '\n') + text;  // line numbers beyond 16 bits
  L.files[L.main] = text;
  return L;
}

}  // namespace gp
