// Generic harness main shared by every p_*.cpp. A harness registers properties
// (id -> judge(tape) function, optional enumerator, optional judge(case-json));
// this file provides the drivers: rapidcheck (via the prebuilt rc_driver.o),
// bounded enumeration, replay, and a forked delta-debugging shrinker for
// crashing cases (sanitizer aborts kill the process, so rapidcheck cannot
// shrink those in-process).
#pragma once
#include <fcntl.h>
#include <signal.h>
#include <sys/select.h>
#include <sys/wait.h>
#include <unistd.h>

#include <algorithm>
#include <cstdio>
#include <cstdlib>
#include <cstring>
#include <ctime>
#include <functional>
#include <map>
#include <set>
#include <string>
#include <vector>

#include "json.hpp"
#include "tape.hpp"

// implemented in rc_driver.cpp (the only TU that includes rapidcheck); not linked into libFuzzer builds
#ifndef VERIF_FUZZ
extern "C" int verif_rc_run(int (*body)(const unsigned char *, unsigned long, void *), void *ctx,
                            unsigned maxlen);
#else
inline int verif_rc_run(int (*)(const unsigned char *, unsigned long, void *), void *, unsigned) { return 1; }
#endif

namespace verif {

struct Result {
  bool ok = true;
  bool discard = false;
  bool nontrivial = false;
  bool harness_error = false;
  std::string sig, msg;
  std::vector<std::string> classes;
  J sample;
  uint64_t hash = 0;
  uint64_t digest = 0;
  void fail(const std::string &signature, const std::string &message) {
    if (!ok) return;  // keep the first failure
    ok = false;
    sig = signature;
    msg = message;
  }
  void cls(const std::string &c) { classes.push_back(c); }
};

inline Result *&g_current() {
  static Result *r = nullptr;
  return r;
}

struct Runner;
struct Prop {
  std::string id;
  unsigned maxlen = 256;
  std::function<void(Tape &, Result &)> fn;
  // enumerate(runner, shard, nshards, tier): calls runner.record(...) per case
  std::function<void(Runner &, int, int, const std::string &)> enumerate;
  // judge a decoded case from a replay file that has no tape
  std::function<void(const J &, Result &)> judge_json;
  // run every case in a forked child: the case is then the complete history of its process (needed where the
  // property is about process-wide state), and a crash becomes an ordinary, shrinkable failure
  bool isolated = false;
};

inline std::vector<Prop> &registry() {
  static std::vector<Prop> r;
  return r;
}
struct Reg {
  Reg(Prop p) { registry().push_back(std::move(p)); }
};

inline bool excluded(const std::string &sig) {
  static std::set<std::string> ex = [] {
    std::set<std::string> s;
    const char *e = getenv("VERIF_EXCLUDE");
    if (e) {
      std::string cur;
      for (const char *p = e;; p++) {
        if (*p == ',' || *p == 0) {
          if (!cur.empty()) s.insert(cur);
          cur.clear();
          if (!*p) break;
        } else
          cur.push_back(*p);
      }
    }
    return s;
  }();
  return ex.count(sig) > 0;
}

inline int env_int(const char *name, int dflt) {
  const char *e = getenv(name);
  return e && *e ? atoi(e) : dflt;
}

struct Failure {
  std::vector<uint8_t> tape;
  bool has_tape = false;
  Result r;
};

struct Runner {
  const Prop *prop = nullptr;
  std::string out_path;
  int journal_fd = -1;
  unsigned long evaluations = 0, discards = 0, excluded_cases = 0;
  std::set<uint64_t> nontrivial;
  std::map<std::string, unsigned long> classes;
  std::vector<J> first_samples;
  std::map<uint64_t, J> low_samples;  // smallest hashes
  J biggest, any_sample;
  size_t biggest_size = 0;
  std::vector<Failure> failures;
  uint64_t digest = 1469598103934665603ULL;
  bool harness_error = false;
  std::string harness_error_msg;
  Failure last_fail;
  bool have_last_fail = false;
  size_t last_fail_consumed = 0;
  long shrink_budget = 500;  // evaluations granted to rapidcheck's shrinker after the first failure
  unsigned case_timeout = 120;

  void journal(const void *p, size_t n, char kind) {
    if (journal_fd < 0) return;
    std::string buf;
    buf.push_back(kind);
    buf.append((const char *)p, n);
    if (ftruncate(journal_fd, 0) != 0) return;
    ssize_t w = pwrite(journal_fd, buf.data(), buf.size(), 0);
    (void)w;
  }

  void account(const Result &r) {
    evaluations++;
    alarm(case_timeout);
    if (r.harness_error) {
      harness_error = true;
      if (harness_error_msg.empty()) harness_error_msg = r.msg;
    }
    if (r.discard) discards++;
    for (auto &c : r.classes) classes[c]++;
    digest = fnv1a(&r.digest, sizeof r.digest, digest);
    if (any_sample.t == J::NUL && r.sample.t != J::NUL) any_sample = r.sample;  // so that samples is never empty
    if (r.nontrivial && r.ok && !r.discard) {
      bool fresh = nontrivial.insert(r.hash).second;
      if (fresh && r.sample.t != J::NUL) {
        if (first_samples.size() < 2)
          first_samples.push_back(r.sample);
        else {
          low_samples[r.hash] = r.sample;
          if (low_samples.size() > 4) low_samples.erase(std::prev(low_samples.end()));
          std::string d = r.sample.dump();
          if (d.size() > biggest_size && d.size() < 6000) {
            biggest_size = d.size();
            biggest = r.sample;
          }
        }
      }
    }
  }

  void journal_case(const J &c) {
    if (journal_fd < 0) return;
    std::string d = c.dump();
    journal(d.data(), d.size(), 'J');
  }

  Result run_tape(const std::vector<uint8_t> &tape) {
    journal(tape.data(), tape.size(), 'T');
    Tape t(tape);
    Result r;
    if (prop->isolated) {
      t.i = run_isolated(tape, r);
    } else {
      g_current() = &r;
      prop->fn(t, r);
      g_current() = nullptr;
    }
    account(r);
    if (!r.ok) {
      last_fail.tape = tape;
      last_fail.has_tape = true;
      last_fail.r = r;
      have_last_fail = true;
      last_fail_consumed = std::min(t.i, tape.size());
    }
    return r;
  }
  // runs prop->fn(tape) in a forked child and ships the Result back as JSON; returns the number of tape bytes read
  size_t run_isolated(const std::vector<uint8_t> &tape, Result &r);
  // after rapidcheck's (budgeted) shrinking: drop the unread tail of the tape and try a few more
  // chunk removals / zeroings in-process, keeping the failure signature
  void post_shrink() {
    if (!have_last_fail) return;
    std::string sig = last_fail.r.sig;
    auto still = [&](const std::vector<uint8_t> &cand) {
      Tape t(cand);
      Result r;
      alarm(case_timeout);
      journal(cand.data(), cand.size(), 'T');
      if (prop->isolated)
        t.i = run_isolated(cand, r);
      else
        prop->fn(t, r);
      evaluations++;
      if (!r.ok && r.sig == sig) {
        last_fail.tape = cand;
        last_fail.tape.resize(std::min(t.i, cand.size()));
        last_fail.r = r;
        return true;
      }
      return false;
    };
    std::vector<uint8_t> cur = last_fail.tape;
    cur.resize(std::min(last_fail_consumed, cur.size()));
    if (!still(cur)) return;  // keeps the rapidcheck result
    int budget = prop->isolated ? 60 : 400;  // isolated cases cost a fork (and a whole process history) each
    for (size_t chunk = std::max<size_t>(last_fail.tape.size() / 2, 1); budget > 0; chunk /= 2) {
      for (size_t start = 0; start + chunk <= last_fail.tape.size() && budget > 0;) {
        std::vector<uint8_t> c(last_fail.tape.begin(), last_fail.tape.begin() + (long)start);
        c.insert(c.end(), last_fail.tape.begin() + (long)(start + chunk), last_fail.tape.end());
        budget--;
        if (!still(c)) start += chunk;
      }
      if (chunk <= 1) break;
    }
    for (size_t i = 0; i < last_fail.tape.size() && budget > 0; i++) {
      if (last_fail.tape[i] == 0) continue;
      std::vector<uint8_t> c = last_fail.tape;
      c[i] = 0;
      budget--;
      if (still(c)) continue;
      if (last_fail.tape[i] > 1) {
        c = last_fail.tape;
        c[i] = (uint8_t)(c[i] / 2);
        budget--;
        still(c);
      }
    }
  }
  // for enumerators that build cases directly (journal_text identifies the case)
  void record(const Result &r) {
    account(r);
    if (!r.ok && failures.size() < 5) {
      Failure f;
      f.r = r;
      failures.push_back(f);
    }
  }
  bool stop_enumeration() const { return failures.size() >= 5; }

  J stats_json(const std::string &mode) const {
    J j = J::obj();
    j.set("property", prop->id);
    j.set("mode", mode);
    j.set("evaluations", evaluations);
    j.set("discards", discards);
    j.set("distinct_nontrivial", (unsigned long)nontrivial.size());
    char dg[32];
    snprintf(dg, sizeof dg, "%016llx", (unsigned long long)digest);
    j.set("digest", dg);
    J cl = J::obj();
    for (auto &c : classes) cl.set(c.first, c.second);
    j.set("classes", cl);
    J sm = J::arr();
    for (auto &s : first_samples) sm.push(s);
    for (auto &s : low_samples) sm.push(s.second);
    if (biggest.t != J::NUL) sm.push(biggest);
    if (sm.a.empty() && any_sample.t != J::NUL) sm.push(any_sample);
    j.set("samples", sm);
    J fl = J::arr();
    for (auto &f : failures) {
      J e = J::obj();
      e.set("sig", f.r.sig);
      e.set("msg", f.r.msg);
      if (f.has_tape) e.set("tape", to_hex(f.tape));
      e.set("case", f.r.sample);
      fl.push(e);
    }
    j.set("failures", fl);
    j.set("harness_error", harness_error);
    j.set("harness_error_msg", harness_error_msg);
    return j;
  }
  void write_out(const std::string &mode) const {
    if (out_path.empty()) return;
    write_file(out_path, stats_json(mode).dump());
    std::string hp = out_path + ".hashes";
    FILE *f = fopen(hp.c_str(), "wb");
    if (f) {
      for (uint64_t h : nontrivial) fwrite(&h, sizeof h, 1, f);
      fclose(f);
    }
  }
};

inline Runner *&g_runner() {
  static Runner *r = nullptr;
  return r;
}

inline void on_alarm(int) {
  // async-signal-safe only: the interrupted code may hold the allocator's lock (an earlier version dumped the decoded
  // case here and dead-locked under ASan). The driver recovers the case from the journalled tape.
  const char m[] = "VERIF-TIMEOUT: a single case exceeded the hang guard\n";
  ssize_t w = write(2, m, sizeof m - 1);
  (void)w;
  _exit(3);
}

inline int rc_body(const unsigned char *p, unsigned long n, void *ctx) {
  Runner *r = (Runner *)ctx;
  if (r->have_last_fail && r->shrink_budget-- <= 0) return 0;  // stop rapidcheck's shrinker
  std::vector<uint8_t> tape(p, p + n);
  Result res = r->run_tape(tape);
  if (res.harness_error) return 1;  // stop; main reports exit 2
  return res.ok ? 0 : 1;
}

// ---- forked execution (crash shrinking) ---------------------------------------------
struct ForkOutcome {
  bool failed = false;   // crash or property failure
  bool crashed = false;
  std::string sig, msg, err;
};

inline std::string crash_signature(const std::string &err, int status) {
  // kind
  std::string kind = "signal";
  size_t p;
  if ((p = err.find("ERROR: AddressSanitizer: ")) != std::string::npos) {
    size_t e = err.find_first_of(" \n", p + 25);
    kind = "asan-" + err.substr(p + 25, e - (p + 25));
  } else if ((p = err.find("ERROR: LeakSanitizer")) != std::string::npos) {
    kind = "leak";
  } else if ((p = err.find("runtime error: ")) != std::string::npos) {
    size_t e = err.find('\n', p);
    std::string t = err.substr(p + 15, e - (p + 15));
    // keep the words, drop the numbers
    std::string w;
    for (char c : t) {
      if (isalpha((unsigned char)c) || c == ' ') w.push_back(c == ' ' ? '-' : c);
      if (w.size() > 40) break;
    }
    kind = "ubsan-" + w;
  } else if ((p = err.find("WARNING: ThreadSanitizer: ")) != std::string::npos) {
    size_t e = err.find_first_of("(\n", p + 26);
    std::string w = err.substr(p + 26, e - (p + 26));
    while (!w.empty() && w.back() == ' ') w.pop_back();
    for (auto &ch : w)
      if (ch == ' ') ch = '-';
    kind = "tsan-" + w;
  } else if (err.find("Assertion") != std::string::npos) {
    kind = "assert";
  } else if (err.find("VERIF-TIMEOUT") != std::string::npos) {
    kind = "timeout";
  } else if (WIFSIGNALED(status)) {
    kind = "signal-" + std::to_string(WTERMSIG(status));
  }
  // first frame inside the repository
  std::string where = "?";
  size_t q = 0;
  while ((q = err.find(" in ", q)) != std::string::npos) {
    size_t eol = err.find('\n', q);
    std::string line = err.substr(q + 4, eol - (q + 4));
    if (line.find("/repo/") != std::string::npos || line.find("Theo::") != std::string::npos) {
      // function name up to '(' or ' '
      size_t e = line.find_first_of("( ");
      where = line.substr(0, e);
      break;
    }
    q = eol == std::string::npos ? err.size() : eol;
  }
  return "crash:" + kind + "@" + where;
}

inline ForkOutcome run_forked(const Prop &prop, const std::vector<uint8_t> &tape, const J *jcase = nullptr) {
  ForkOutcome out;
  int pe[2], pr[2];
  if (pipe(pe) != 0 || pipe(pr) != 0) return out;
  fflush(stdout);
  fflush(stderr);
  pid_t pid = fork();
  if (pid == 0) {
    close(pe[0]);
    close(pr[0]);
    dup2(pe[1], 2);
    signal(SIGALRM, on_alarm);
    alarm((unsigned)env_int("VERIF_FORK_TIMEOUT", 30));
    Result r;
    g_current() = &r;
    if (jcase && prop.judge_json)
      prop.judge_json(*jcase, r);
    else {
      Tape t(tape);
      prop.fn(t, r);
    }
    std::string s = (r.ok ? std::string("OK\n") : "FAIL\n" + r.sig + "\n" + r.msg + "\n");
    ssize_t w = write(pr[1], s.data(), s.size());
    (void)w;
    _exit(r.ok ? 0 : 1);
  }
  close(pe[1]);
  close(pr[1]);
  std::string res;
  char buf[4096];
  ssize_t n;
  // read both pipes until EOF (stderr first may block if large; use simple loop with poll-free approach)
  fd_set fds;
  bool oe = true, orr = true;
  while (oe || orr) {
    FD_ZERO(&fds);
    int mx = 0;
    if (oe) {
      FD_SET(pe[0], &fds);
      mx = std::max(mx, pe[0]);
    }
    if (orr) {
      FD_SET(pr[0], &fds);
      mx = std::max(mx, pr[0]);
    }
    if (select(mx + 1, &fds, nullptr, nullptr, nullptr) <= 0) break;
    if (oe && FD_ISSET(pe[0], &fds)) {
      n = read(pe[0], buf, sizeof buf);
      if (n <= 0)
        oe = false;
      else if (out.err.size() < 200000)
        out.err.append(buf, (size_t)n);
    }
    if (orr && FD_ISSET(pr[0], &fds)) {
      n = read(pr[0], buf, sizeof buf);
      if (n <= 0)
        orr = false;
      else
        res.append(buf, (size_t)n);
    }
  }
  close(pe[0]);
  close(pr[0]);
  int status = 0;
  waitpid(pid, &status, 0);
  if (WIFEXITED(status) && WEXITSTATUS(status) == 0 && res.rfind("OK", 0) == 0) return out;
  out.failed = true;
  if (res.rfind("FAIL\n", 0) == 0) {
    size_t a = res.find('\n', 5);
    out.sig = res.substr(5, a - 5);
    out.msg = a == std::string::npos ? "" : res.substr(a + 1);
    while (!out.msg.empty() && out.msg.back() == '\n') out.msg.pop_back();
    return out;
  }
  out.crashed = true;
  out.sig = crash_signature(out.err, status);
  // message: first interesting line of the report
  size_t p = out.err.find("ERROR:");
  if (p == std::string::npos) p = out.err.find("runtime error");
  if (p == std::string::npos) p = out.err.find("Assertion");
  if (p == std::string::npos) p = 0;
  size_t ls = out.err.rfind('\n', p);
  ls = ls == std::string::npos ? 0 : ls + 1;
  size_t le = out.err.find('\n', p);
  out.msg = out.err.substr(ls, (le == std::string::npos ? out.err.size() : le) - ls);
  return out;
}

// ddmin-style tape shrinking with a forked oracle; keeps failures with the same signature
inline std::vector<uint8_t> shrink_forked(const Prop &prop, std::vector<uint8_t> tape, const std::string &sig,
                                          int budget = 600) {
  time_t deadline = time(nullptr) + env_int("VERIF_SHRINK_SECONDS", 150);
  auto still = [&](const std::vector<uint8_t> &t) {
    if (budget-- <= 0 || time(nullptr) > deadline) {
      budget = 0;
      return false;
    }
    ForkOutcome o = run_forked(prop, t);
    return o.failed && o.sig == sig;
  };
  // trailing truncation first (tape past the decoder's needs is common)
  for (size_t chunk = tape.size() / 2; chunk >= 1 && budget > 0; chunk /= 2) {
    bool progress = true;
    while (progress && budget > 0) {
      progress = false;
      for (size_t start = 0; start + chunk <= tape.size() && budget > 0;) {
        std::vector<uint8_t> c(tape.begin(), tape.begin() + start);
        c.insert(c.end(), tape.begin() + start + chunk, tape.end());
        if (still(c)) {
          tape = c;
          progress = true;
        } else
          start += chunk;
      }
    }
    if (chunk == 1) break;
  }
  for (size_t i = 0; i < tape.size() && budget > 0; i++) {
    if (tape[i] == 0) continue;
    std::vector<uint8_t> c = tape;
    c[i] = 0;
    if (still(c)) {
      tape = c;
      continue;
    }
    c[i] = tape[i] / 2;
    if (c[i] != tape[i] && still(c)) tape = c;
  }
  return tape;
}

inline size_t Runner::run_isolated(const std::vector<uint8_t> &tape, Result &r) {
  int pe[2], pr[2];
  if (pipe(pe) != 0 || pipe(pr) != 0) {
    r.harness_error = true;
    r.msg = "pipe failed";
    return 0;
  }
  fflush(stdout);
  fflush(stderr);
  pid_t pid = fork();
  if (pid == 0) {
    close(pe[0]);
    close(pr[0]);
    dup2(pe[1], 2);
    signal(SIGALRM, on_alarm);
    alarm(case_timeout);
    Tape t(tape);
    Result c;
    g_current() = &c;
    prop->fn(t, c);
    J j = J::obj();
    j.set("ok", c.ok);
    j.set("discard", c.discard);
    j.set("nontrivial", c.nontrivial);
    j.set("harness_error", c.harness_error);
    j.set("sig", c.sig);
    j.set("msg", c.msg);
    char hb[32];
    snprintf(hb, sizeof hb, "%016llx", (unsigned long long)c.hash);
    j.set("hash", hb);
    J cl = J::arr();
    for (auto &x : c.classes) cl.push(x);
    j.set("classes", cl);
    j.set("sample", c.sample);
    j.set("consumed", (unsigned long)t.i);
    std::string s = j.dump();
    size_t off = 0;
    while (off < s.size()) {
      ssize_t w = write(pr[1], s.data() + off, s.size() - off);
      if (w <= 0) break;
      off += (size_t)w;
    }
    _exit(0);
  }
  close(pe[1]);
  close(pr[1]);
  std::string res, err;
  char buf[8192];
  bool oe = true, orr = true;
  while (oe || orr) {
    fd_set fds;
    FD_ZERO(&fds);
    int mx = 0;
    if (oe) {
      FD_SET(pe[0], &fds);
      mx = std::max(mx, pe[0]);
    }
    if (orr) {
      FD_SET(pr[0], &fds);
      mx = std::max(mx, pr[0]);
    }
    if (select(mx + 1, &fds, nullptr, nullptr, nullptr) <= 0) break;
    if (oe && FD_ISSET(pe[0], &fds)) {
      ssize_t n = read(pe[0], buf, sizeof buf);
      if (n <= 0)
        oe = false;
      else if (err.size() < 200000)
        err.append(buf, (size_t)n);
    }
    if (orr && FD_ISSET(pr[0], &fds)) {
      ssize_t n = read(pr[0], buf, sizeof buf);
      if (n <= 0)
        orr = false;
      else
        res.append(buf, (size_t)n);
    }
  }
  close(pe[0]);
  close(pr[0]);
  int status = 0;
  waitpid(pid, &status, 0);
  alarm(case_timeout);
  JParser jp(res);
  J j = res.empty() ? J() : jp.parse();
  if (WIFEXITED(status) && WEXITSTATUS(status) == 0 && j.t == J::OBJ && jp.ok) {
    r.ok = j.at("ok").b;
    r.discard = j.at("discard").b;
    r.nontrivial = j.at("nontrivial").b;
    r.harness_error = j.at("harness_error").b;
    r.sig = j.at("sig").s;
    r.msg = j.at("msg").s;
    r.hash = strtoull(j.at("hash").s.c_str(), nullptr, 16);
    for (auto &x : j.at("classes").a) r.classes.push_back(x.s);
    r.sample = j.at("sample");
    return (size_t)j.at("consumed").i();
  }
  // the child died: sanitizer report, assertion, signal, hang guard
  r.ok = false;
  r.sig = crash_signature(err, status);
  size_t p = err.find("ERROR:");
  if (p == std::string::npos) p = err.find("runtime error");
  if (p == std::string::npos) p = err.find("WARNING: ThreadSanitizer");
  if (p == std::string::npos) p = 0;
  size_t le = err.find('\n', p);
  r.msg = err.substr(p, (le == std::string::npos ? err.size() : le) - p);
  size_t cs = err.find("VERIF-TIMEOUT-CASE: ");
  if (cs != std::string::npos) r.msg += " " + err.substr(cs, 600);
  return tape.size();
}

inline int harness_main(int argc, char **argv) {
  if (argc < 3) {
    fprintf(stderr, "usage: %s <PROP> rc|enum <shard> <n> <tier>|replay <file>|shrink <journal> [--out F] [--journal F]\n",
            argv[0]);
    fprintf(stderr, "properties:");
    for (auto &p : registry()) fprintf(stderr, " %s", p.id.c_str());
    fprintf(stderr, "\n");
    return 2;
  }
  std::string id = argv[1], mode = argv[2];
  const Prop *prop = nullptr;
  for (auto &p : registry())
    if (p.id == id) prop = &p;
  if (!prop) {
    fprintf(stderr, "unknown property %s\n", id.c_str());
    return 2;
  }
  Runner runner;
  runner.prop = prop;
  g_runner() = &runner;
  std::vector<std::string> pos;
  for (int i = 3; i < argc; i++) {
    std::string a = argv[i];
    if (a == "--out" && i + 1 < argc)
      runner.out_path = argv[++i];
    else if (a == "--journal" && i + 1 < argc) {
      runner.journal_fd = open(argv[++i], O_CREAT | O_RDWR | O_TRUNC, 0644);
    } else
      pos.push_back(a);
  }
  signal(SIGALRM, on_alarm);
  runner.case_timeout = (unsigned)env_int("VERIF_CASE_TIMEOUT", 60);
  if (mode == "rc" || mode == "enum") alarm(runner.case_timeout);  // replay/shrink children have their own guard

  if (mode == "rc") {
    if (prop->isolated) runner.shrink_budget = 80;
    int passed = verif_rc_run(rc_body, &runner, prop->maxlen);
    alarm(runner.case_timeout);  // the post-shrink candidates below run under the hang guard too
    if (runner.harness_error) {
      runner.write_out("rc");
      fprintf(stderr, "HARNESS-ERROR: %s\n", runner.harness_error_msg.c_str());
      return 2;
    }
    if (!passed && runner.have_last_fail) {
      // a failure is on record before the (hang-guarded) post-shrink starts, so a candidate that never returns
      // cannot take the finding with it
      runner.failures.push_back(runner.last_fail);
      runner.write_out("rc");
      runner.failures.pop_back();
      runner.post_shrink();
      runner.failures.push_back(runner.last_fail);
    }
    alarm(0);
    runner.write_out("rc");
    return runner.failures.empty() ? 0 : 1;
  }
  if (mode == "enum") {
    int shard = pos.size() > 0 ? atoi(pos[0].c_str()) : 0;
    int n = pos.size() > 1 ? atoi(pos[1].c_str()) : 1;
    std::string tier = pos.size() > 2 ? pos[2] : "quick";
    if (!prop->enumerate) {
      fprintf(stderr, "no enumerator for %s\n", id.c_str());
      return 2;
    }
    prop->enumerate(runner, shard, n, tier);
    alarm(0);
    runner.write_out("enum");
    if (runner.harness_error) {
      fprintf(stderr, "HARNESS-ERROR: %s\n", runner.harness_error_msg.c_str());
      return 2;
    }
    return runner.failures.empty() ? 0 : 1;
  }
  if (mode == "replay") {
    if (pos.empty()) return 2;
    std::string txt;
    if (!read_file(pos[0], txt)) {
      fprintf(stderr, "cannot read %s\n", pos[0].c_str());
      return 2;
    }
    JParser jp(txt);
    J j = jp.parse();
    if (!jp.ok) {
      fprintf(stderr, "cannot parse %s\n", pos[0].c_str());
      return 2;
    }
    bool forked = env_int("VERIF_FORK", 1) != 0;
    std::vector<uint8_t> tape;
    const J *jcase = nullptr;
    if (j.has("tape") && j.at("tape").t == J::STR)
      tape = from_hex(j.at("tape").s);
    else if (j.has("case") && prop->judge_json)
      jcase = &j.at("case");
    else {
      fprintf(stderr, "replay file has neither tape nor a replayable case\n");
      return 2;
    }
    if (forked) {
      ForkOutcome o = run_forked(*prop, tape, jcase);
      if (o.failed) {
        printf("REPLAY-FAIL sig=%s msg=%s\n", o.sig.c_str(), o.msg.c_str());
        return 1;
      }
      printf("REPLAY-OK\n");
      return 0;
    }
    Result r;
    alarm(0);
    if (jcase)
      prop->judge_json(*jcase, r);
    else {
      Tape t(tape);
      prop->fn(t, r);
    }
    if (r.harness_error) return 2;
    if (!r.ok) {
      printf("REPLAY-FAIL sig=%s msg=%s\n", r.sig.c_str(), r.msg.c_str());
      std::string d = r.sample.dump();
      printf("case=%s\n", d.c_str());
      return 1;
    }
    printf("REPLAY-OK%s\n", r.discard ? " (discarded)" : "");
    return 0;
  }
  if (mode == "show") {  // decode a tape (hex on the command line) and print the case
    if (pos.empty()) return 2;
    std::vector<uint8_t> tape = from_hex(pos[0]);
    Tape t(tape);
    Result r;
    g_current() = &r;
    alarm(10);
    prop->fn(t, r);
    alarm(0);
    printf("%s\nok=%d nontrivial=%d discard=%d sig=%s msg=%s\n", r.sample.dump().c_str(), r.ok, r.nontrivial,
           r.discard, r.sig.c_str(), r.msg.c_str());
    return 0;
  }
  if (mode == "shrink") {
    // input: a journal file ('T' + tape bytes) left by a crashed worker
    if (pos.empty()) return 2;
    std::string txt;
    if (!read_file(pos[0], txt) || txt.empty() || txt[0] != 'T') {
      fprintf(stderr, "no tape journal in %s\n", pos[0].c_str());
      return 2;
    }
    std::vector<uint8_t> tape(txt.begin() + 1, txt.end());
    ForkOutcome o = run_forked(*prop, tape);
    J out = J::obj();
    out.set("property", prop->id);
    if (!o.failed) {
      out.set("reproduced", false);
      if (!runner.out_path.empty()) write_file(runner.out_path, out.dump());
      printf("SHRINK: journalled case does not fail when re-run in isolation\n");
      return 0;
    }
    // a case that runs into the time limit is kept as it is: every shrinking candidate would cost the full limit
    std::vector<uint8_t> small = o.sig.rfind("crash:timeout", 0) == 0 ? tape : shrink_forked(*prop, tape, o.sig);
    ForkOutcome o2 = run_forked(*prop, small);
    if (!o2.failed) {
      small = tape;
      o2 = o;
    }
    out.set("reproduced", true);
    out.set("sig", o2.sig);
    out.set("msg", o2.msg);
    out.set("crashed", o2.crashed);
    out.set("tape", to_hex(small));
    out.set("stderr", o2.err.substr(0, 6000));
    // decoded case: run the decoder in a child that only decodes, if the harness allows (VERIF_DECODE_ONLY)
    if (!runner.out_path.empty()) write_file(runner.out_path, out.dump());
    printf("SHRINK: sig=%s tape=%s\n", o2.sig.c_str(), to_hex(small).c_str());
    return 1;
  }
  fprintf(stderr, "unknown mode %s\n", mode.c_str());
  return 2;
}

}  // namespace verif

// ---- libFuzzer entry (built with -DVERIF_FUZZ by the "fuzz" flavour): the fuzzer's bytes are the tape, so coverage
// feedback steers the same structured decoders that rapidcheck drives. The property's oracle runs inside the target;
// a failure writes a replay file (tape + decoded case + signature) and traps, so libFuzzer saves the input.
namespace verif {
inline Runner &fuzz_runner() {
  static Runner r;
  return r;
}
inline void fuzz_flush() { fuzz_runner().write_out("fuzz"); }
inline int fuzz_one(const uint8_t *d, size_t n) {
  Runner &runner = fuzz_runner();
  if (!runner.prop) {
    const char *want = getenv("VERIF_FUZZ_PROP");
    for (auto &p : registry())
      if (!want || p.id == want) {
        runner.prop = &p;
        break;
      }
    if (!runner.prop) {
      fprintf(stderr, "VERIF_FUZZ_PROP names no property of this harness\n");
      _exit(2);
    }
    const char *out = getenv("VERIF_FUZZ_OUT");
    if (out) runner.out_path = out;
    signal(SIGALRM, SIG_DFL);  // libFuzzer has its own -timeout
    atexit(fuzz_flush);
  }
  std::vector<uint8_t> tape(d, d + n);
  Result r = runner.run_tape(tape);
  alarm(0);
  if ((runner.evaluations % 5000) == 0) fuzz_flush();
  if (!r.ok) {
    const char *dir = getenv("VERIF_FUZZ_ARTIFACTS");
    J j = J::obj();
    j.set("property", runner.prop->id);
    j.set("signature", r.sig);
    j.set("message", r.msg);
    j.set("tape", to_hex(tape));
    j.set("case", r.sample);
    char name[64];
    snprintf(name, sizeof name, "/failure-%016llx.json", (unsigned long long)fnv1a(r.sig + to_hex(tape)));
    if (dir) write_file(std::string(dir) + name, j.dump());
    fprintf(stderr, "VERIF-FUZZ-FAILURE sig=%s msg=%s\n", r.sig.c_str(), r.msg.c_str());
    fuzz_flush();
    __builtin_trap();
  }
  return 0;
}
}  // namespace verif

#ifdef VERIF_FUZZ
#define VERIF_MAIN \
  extern "C" int LLVMFuzzerTestOneInput(const uint8_t *d, size_t n) { return verif::fuzz_one(d, n); }
#else
#define VERIF_MAIN \
  int main(int argc, char **argv) { return verif::harness_main(argc, argv); }
#endif
