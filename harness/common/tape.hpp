// Tape: the single source of generated choices. Every generator in /verif is a
// deterministic function decode(Tape) -> Case. rapidcheck, libFuzzer and the
// enumerators all supply tapes; reading past the end yields 0, and every
// decoder orders its alternatives simplest-first, so a shorter tape or smaller
// bytes always decode to a simpler case (this is what makes rapidcheck's
// generic byte-vector shrinking shrink whole programs / histories).
#pragma once
#include <cstddef>
#include <cstdint>
#include <initializer_list>
#include <string>
#include <vector>

namespace verif {

struct Tape {
  const uint8_t *p = nullptr;
  size_t n = 0;
  size_t i = 0;
  Tape() {}
  Tape(const uint8_t *p, size_t n) : p(p), n(n) {}
  explicit Tape(const std::vector<uint8_t> &v) : p(v.data()), n(v.size()) {}

  bool exhausted() const { return i >= n; }
  uint8_t byte() { return i < n ? p[i++] : 0; }
  // uniform-ish choice in [0,k)
  unsigned pick(unsigned k) {
    if (k <= 1) return 0;
    if (k <= 256) return byte() % k;
    unsigned v = byte();
    v = (v << 8) | byte();
    if (k <= 65536) return v % k;
    v = (v << 8) | byte();
    v = (v << 8) | byte();
    return v % k;
  }
  int range(int lo, int hi) { return lo + (int)pick((unsigned)(hi - lo + 1)); }
  // true with probability num/den; byte 0 (and an exhausted tape) gives false
  bool chance(unsigned num, unsigned den) {
    unsigned v = pick(den);
    return v >= den - num;
  }
  // index into weights; index 0 is what an exhausted tape yields
  unsigned weighted(std::initializer_list<unsigned> w) {
    unsigned total = 0;
    for (unsigned x : w) total += x;
    unsigned v = pick(total ? total : 1);
    unsigned idx = 0;
    for (unsigned x : w) {
      if (v < x) return idx;
      v -= x;
      idx++;
    }
    return 0;
  }
  uint32_t u32() {
    uint32_t v = byte();
    v = (v << 8) | byte();
    v = (v << 8) | byte();
    v = (v << 8) | byte();
    return v;
  }
};

// Secondary choice stream derived from a few tape bytes (splitmix64). Decoders draw their
// high-level choices first and derive long, low-importance choice streams (layout, separators,
// edit positions) from a 32-bit seed read from the tape, so that an exhausted tape does not
// starve them. It stays a pure function of the tape; seed 0 yields the all-zero (simplest) stream.
inline std::vector<uint8_t> derive_bytes(uint32_t seed, size_t n) {
  std::vector<uint8_t> v(n, 0);
  if (seed == 0) return v;
  uint64_t x = seed * 0x9E3779B97F4A7C15ULL + 0x1234567ULL;
  for (size_t i = 0; i < n; i++) {
    x += 0x9E3779B97F4A7C15ULL;
    uint64_t z = x;
    z = (z ^ (z >> 30)) * 0xBF58476D1CE4E5B9ULL;
    z = (z ^ (z >> 27)) * 0x94D049BB133111EBULL;
    z = z ^ (z >> 31);
    v[i] = (uint8_t)(z >> 24);
  }
  return v;
}

inline std::string to_hex(const std::vector<uint8_t> &v) {
  static const char *d = "0123456789abcdef";
  std::string s;
  s.reserve(v.size() * 2);
  for (uint8_t b : v) {
    s.push_back(d[b >> 4]);
    s.push_back(d[b & 15]);
  }
  return s;
}
inline std::vector<uint8_t> from_hex(const std::string &s) {
  std::vector<uint8_t> v;
  auto val = [](char c) -> int {
    if (c >= '0' && c <= '9') return c - '0';
    if (c >= 'a' && c <= 'f') return c - 'a' + 10;
    if (c >= 'A' && c <= 'F') return c - 'A' + 10;
    return 0;
  };
  for (size_t i = 0; i + 1 < s.size(); i += 2)
    v.push_back((uint8_t)(val(s[i]) * 16 + val(s[i + 1])));
  return v;
}

inline uint64_t fnv1a(const void *data, size_t n, uint64_t h = 1469598103934665603ULL) {
  const uint8_t *p = (const uint8_t *)data;
  for (size_t i = 0; i < n; i++) {
    h ^= p[i];
    h *= 1099511628211ULL;
  }
  return h;
}
inline uint64_t fnv1a(const std::string &s, uint64_t h = 1469598103934665603ULL) {
  return fnv1a(s.data(), s.size(), h);
}

}  // namespace verif
