// The only translation unit that includes rapidcheck. Compiled once by setup
// (it does not depend on /repo), linked into every harness. rapidcheck owns all
// randomness: it generates the tape (a byte vector whose maximal length scales
// with rapidcheck's size parameter) and shrinks it (chunk removal, bytes toward
// zero). Configuration comes only from RC_PARAMS (seed, max_success, max_size).
#include <rapidcheck.h>

#include <cstdint>
#include <vector>

extern "C" int verif_rc_run(int (*body)(const unsigned char *, unsigned long, void *), void *ctx,
                            unsigned maxlen) {
  // inRange collapses at small sizes, so the byte generator is pinned to a large size;
  // the tape length is what scales with rapidcheck's size (0..max_size).
  auto byteGen = rc::gen::map(rc::gen::resize(1000, rc::gen::inRange<int>(0, 256)),
                              [](int v) { return (uint8_t)v; });
  auto tapeGen = rc::gen::withSize([maxlen, byteGen](int size) {
    int scaled = (int)((long)maxlen * (size + 1) / 100);
    if (scaled < 4) scaled = 4;
    return rc::gen::resize(scaled, rc::gen::container<std::vector<uint8_t>>(byteGen));
  });
  bool ok = rc::check("tape property", [&]() {
    std::vector<uint8_t> tape = *tapeGen;
    int r = body(tape.data(), tape.size(), ctx);
    RC_ASSERT(r == 0);
  });
  return ok ? 1 : 0;
}
