// Minimal JSON value, writer and parser (no dependencies). Strings are byte
// strings: bytes >= 0x80 and control characters are written as \u00XX so that
// arbitrary file contents survive a round trip through a replay file.
#pragma once
#include <cstdio>
#include <cstdlib>
#include <map>
#include <memory>
#include <string>
#include <vector>

namespace verif {

struct J {
  enum T { NUL, BOOL, NUM, STR, ARR, OBJ } t = NUL;
  bool b = false;
  double num = 0;
  std::string s;
  std::vector<J> a;
  std::vector<std::pair<std::string, J>> o;

  J() {}
  J(bool v) : t(BOOL), b(v) {}
  J(int v) : t(NUM), num(v) {}
  J(unsigned v) : t(NUM), num(v) {}
  J(long v) : t(NUM), num((double)v) {}
  J(unsigned long v) : t(NUM), num((double)v) {}
  J(long long v) : t(NUM), num((double)v) {}
  J(unsigned long long v) : t(NUM), num((double)v) {}
  J(double v) : t(NUM), num(v) {}
  J(const char *v) : t(STR), s(v) {}
  J(const std::string &v) : t(STR), s(v) {}
  static J arr() {
    J j;
    j.t = ARR;
    return j;
  }
  static J obj() {
    J j;
    j.t = OBJ;
    return j;
  }
  J &push(const J &v) {
    t = ARR;
    a.push_back(v);
    return *this;
  }
  J &set(const std::string &k, const J &v) {
    t = OBJ;
    for (auto &p : o)
      if (p.first == k) {
        p.second = v;
        return *this;
      }
    o.push_back({k, v});
    return *this;
  }
  const J *get(const std::string &k) const {
    for (auto &p : o)
      if (p.first == k) return &p.second;
    return nullptr;
  }
  bool has(const std::string &k) const { return get(k) != nullptr; }
  const J &at(const std::string &k) const {
    static J nul;
    const J *p = get(k);
    return p ? *p : nul;
  }
  long long i() const { return (long long)num; }

  static void esc(const std::string &in, std::string &out) {
    out.push_back('"');
    for (unsigned char c : in) {
      switch (c) {
        case '"': out += "\\\""; break;
        case '\\': out += "\\\\"; break;
        case '\n': out += "\\n"; break;
        case '\t': out += "\\t"; break;
        case '\r': out += "\\r"; break;
        default:
          if (c < 0x20 || c >= 0x7f) {
            char buf[8];
            snprintf(buf, sizeof buf, "\\u%04x", c);
            out += buf;
          } else
            out.push_back((char)c);
      }
    }
    out.push_back('"');
  }
  void dump(std::string &out) const {
    switch (t) {
      case NUL: out += "null"; break;
      case BOOL: out += b ? "true" : "false"; break;
      case NUM: {
        char buf[64];
        if (num == (double)(long long)num && num > -9e15 && num < 9e15)
          snprintf(buf, sizeof buf, "%lld", (long long)num);
        else
          snprintf(buf, sizeof buf, "%.6g", num);
        out += buf;
        break;
      }
      case STR: esc(s, out); break;
      case ARR: {
        out.push_back('[');
        bool f = true;
        for (auto &x : a) {
          if (!f) out.push_back(',');
          f = false;
          x.dump(out);
        }
        out.push_back(']');
        break;
      }
      case OBJ: {
        out.push_back('{');
        bool f = true;
        for (auto &x : o) {
          if (!f) out.push_back(',');
          f = false;
          esc(x.first, out);
          out.push_back(':');
          x.second.dump(out);
        }
        out.push_back('}');
        break;
      }
    }
  }
  std::string dump() const {
    std::string s;
    dump(s);
    return s;
  }
};

struct JParser {
  const std::string &s;
  size_t i = 0;
  bool ok = true;
  explicit JParser(const std::string &s) : s(s) {}
  void ws() {
    while (i < s.size() && (s[i] == ' ' || s[i] == '\n' || s[i] == '\t' || s[i] == '\r')) i++;
  }
  J parse() {
    ws();
    if (i >= s.size()) {
      ok = false;
      return J();
    }
    char c = s[i];
    if (c == '{') {
      J j = J::obj();
      i++;
      ws();
      if (i < s.size() && s[i] == '}') {
        i++;
        return j;
      }
      while (ok) {
        ws();
        J k = parse();
        ws();
        if (i >= s.size() || s[i] != ':') {
          ok = false;
          break;
        }
        i++;
        J v = parse();
        j.o.push_back({k.s, v});
        ws();
        if (i < s.size() && s[i] == ',') {
          i++;
          continue;
        }
        if (i < s.size() && s[i] == '}') {
          i++;
          break;
        }
        ok = false;
      }
      return j;
    }
    if (c == '[') {
      J j = J::arr();
      i++;
      ws();
      if (i < s.size() && s[i] == ']') {
        i++;
        return j;
      }
      while (ok) {
        j.a.push_back(parse());
        ws();
        if (i < s.size() && s[i] == ',') {
          i++;
          continue;
        }
        if (i < s.size() && s[i] == ']') {
          i++;
          break;
        }
        ok = false;
      }
      return j;
    }
    if (c == '"') {
      J j;
      j.t = J::STR;
      i++;
      while (i < s.size() && s[i] != '"') {
        if (s[i] == '\\' && i + 1 < s.size()) {
          i++;
          char e = s[i++];
          switch (e) {
            case 'n': j.s.push_back('\n'); break;
            case 't': j.s.push_back('\t'); break;
            case 'r': j.s.push_back('\r'); break;
            case 'b': j.s.push_back('\b'); break;
            case 'f': j.s.push_back('\f'); break;
            case 'u': {
              unsigned v = (unsigned)strtoul(s.substr(i, 4).c_str(), nullptr, 16);
              i += 4;
              if (v < 256)
                j.s.push_back((char)v);
              else {  // encode as utf-8 (not produced by our writer)
                if (v < 0x800) {
                  j.s.push_back((char)(0xC0 | (v >> 6)));
                  j.s.push_back((char)(0x80 | (v & 0x3F)));
                } else {
                  j.s.push_back((char)(0xE0 | (v >> 12)));
                  j.s.push_back((char)(0x80 | ((v >> 6) & 0x3F)));
                  j.s.push_back((char)(0x80 | (v & 0x3F)));
                }
              }
              break;
            }
            default: j.s.push_back(e);
          }
        } else
          j.s.push_back(s[i++]);
      }
      i++;
      return j;
    }
    if (s.compare(i, 4, "true") == 0) {
      i += 4;
      return J(true);
    }
    if (s.compare(i, 5, "false") == 0) {
      i += 5;
      return J(false);
    }
    if (s.compare(i, 4, "null") == 0) {
      i += 4;
      return J();
    }
    char *end = nullptr;
    double v = strtod(s.c_str() + i, &end);
    if (end == s.c_str() + i) {
      ok = false;
      return J();
    }
    i = (size_t)(end - s.c_str());
    return J(v);
  }
};

inline bool read_file(const std::string &path, std::string &out) {
  FILE *f = fopen(path.c_str(), "rb");
  if (!f) return false;
  char buf[65536];
  size_t n;
  out.clear();
  while ((n = fread(buf, 1, sizeof buf, f)) > 0) out.append(buf, n);
  fclose(f);
  return true;
}
inline bool write_file(const std::string &path, const std::string &data) {
  FILE *f = fopen(path.c_str(), "wb");
  if (!f) return false;
  fwrite(data.data(), 1, data.size(), f);
  fclose(f);
  return true;
}

}  // namespace verif
