// R-lex: reference maximal-munch tokenizer, written from the rule list of
// Compiler/src/lexer.l as a table of spellings plus hand-written matchers.
// Longest match wins, ties go to the earlier rule. Line of a token = line on
// which the token ends. Includes no repository header.
#pragma once
#include <map>
#include <set>
#include <string>
#include <vector>

namespace ref {

enum class K {
  T_EOF, ID, NV_ID, INT, PAREN_CLOSE, PAREN_OPEN, ARGSEP, PROGSEP, LABELDEC, ASSIGN, NEQ_ZERO, EQ,
  DO, LOOP, WHILE, GOTO, IF, THEN, STOP, END, PROGRAM, IN, OUT, INCLUDE, FNAME, DEFINE, AS, PRIORITY,
  END_DEFINE, PROG_TEMP, VALUE_TEMP, ID_TEMP, INT_TEMP, ARGS_TEMP, INSERTION, TEMP_VAL, RUN, WITH,
  NONE
};

inline const char *kname(K k) {
  static const char *n[] = {"EOF", "ID", "NV_ID", "INT", ")", "(", ",", ";", ":", ":=", "!= 0", "=",
                            "DO", "LOOP", "WHILE", "GOTO", "IF", "THEN", "STOP", "END", "PROGRAM", "IN", "OUT",
                            "INCLUDE", "FNAME", "DEFINE", "AS", "PRIORITY", "END_DEFINE", "<P>", "<V>", "<ID>",
                            "<INT>", "<ARGS>", "$n", "#n", "RUN", "WITH", "NONE"};
  return n[(int)k];
}

struct Tok {
  K k = K::NONE;
  std::string text;
  std::string file;
  int line = 0;
};

struct Rule {
  K k;                               // NONE => produces nothing (whitespace/comment)
  std::vector<std::string> spellings;  // fixed spellings, or empty for a matcher
  int matcher;                       // 0 none, 1 ws, 2 fname, 3 $int, 4 #int, 5 id, 6 int, 7 comment, 8 any
};

inline std::vector<std::string> wrap(const std::vector<std::string> &v, std::vector<std::string> extra) {
  std::vector<std::string> r;
  for (auto &s : v) r.push_back("<" + s + ">");
  for (auto &s : extra) r.push_back(s);
  return r;
}

inline const std::vector<Rule> &rules() {
  static const std::vector<std::string> program = {"PROGRAM", "Program", "program", "PROG", "Prog", "prog"};
  static const std::vector<std::string> value = {"VALUE", "Value", "value", "VAL", "Val", "val"};
  static const std::vector<Rule> r = {
      {K::NONE, {}, 1},
      {K::PAREN_OPEN, {"("}, 0},
      {K::PAREN_CLOSE, {")"}, 0},
      {K::ARGSEP, {","}, 0},
      {K::PROGSEP, {";"}, 0},
      {K::LABELDEC, {":"}, 0},
      {K::ASSIGN, {":="}, 0},
      {K::NEQ_ZERO, {"!= 0"}, 0},
      {K::EQ, {"="}, 0},
      {K::RUN, {"RUN", "Run", "run"}, 0},
      {K::WITH, {"WITH", "With", "with"}, 0},
      {K::DO, {"DO", "do", "Do"}, 0},
      {K::LOOP, {"LOOP", "Loop", "loop"}, 0},
      {K::WHILE, {"WHILE", "While", "while"}, 0},
      {K::GOTO, {"GOTO", "Goto", "goto"}, 0},
      {K::IF, {"IF", "If", "if"}, 0},
      {K::THEN, {"THEN", "Then", "then"}, 0},
      {K::STOP, {"STOP", "Stop", "stop"}, 0},
      {K::END, {"END", "End", "end"}, 0},
      {K::PROGRAM, program, 0},
      {K::IN, {"IN", "In", "in"}, 0},
      {K::OUT, {"OUT", "Out", "out"}, 0},
      {K::INCLUDE, {"INCLUDE", "Include", "include"}, 0},
      {K::FNAME, {}, 2},
      {K::DEFINE, {"DEFINE", "Define", "Def", "define", "def"}, 0},
      {K::AS, {"AS", "As", "as"}, 0},
      {K::PRIORITY, {"PRIORITY", "Priority", "priority", "PRIO", "Prio", "prio"}, 0},
      {K::END_DEFINE, {"END DEFINE", "End Define", "end define", "ENDDEF", "Enddef", "enddef"}, 0},
      {K::PROG_TEMP, wrap(program, {"<P>", "<p>"}), 0},
      {K::VALUE_TEMP, wrap(value, {"<V>", "<v>"}), 0},
      {K::ID_TEMP, {"<ID>", "<id>"}, 0},
      {K::INT_TEMP, {"<INT>", "<Int>", "<int>"}, 0},
      {K::INSERTION, {}, 3},
      {K::TEMP_VAL, {}, 4},
      {K::ID, {}, 5},
      {K::INT, {}, 6},
      {K::ARGS_TEMP, {"<ARGS>", "<Args>", "<args>", "<A>", "<a>"}, 0},
      {K::NONE, {}, 7},
      {K::NV_ID, {}, 8},
  };
  return r;
}

inline bool is_alpha_(unsigned char c) { return (c >= 'a' && c <= 'z') || (c >= 'A' && c <= 'Z') || c == '_'; }
inline bool is_digit(unsigned char c) { return c >= '0' && c <= '9'; }

inline size_t match_int(const std::string &s, size_t p) {
  if (p >= s.size() || !is_digit((unsigned char)s[p])) return 0;
  if (s[p] == '0') return 1;
  size_t q = p;
  while (q < s.size() && is_digit((unsigned char)s[q])) q++;
  return q - p;
}

inline size_t match_rule(const Rule &r, const std::string &s, size_t p) {
  size_t best = 0;
  if (r.matcher == 0) {
    for (auto &sp : r.spellings)
      if (sp.size() > best && s.compare(p, sp.size(), sp) == 0) best = sp.size();
    return best;
  }
  unsigned char c = (unsigned char)s[p];
  switch (r.matcher) {
    case 1: {
      size_t q = p;
      while (q < s.size() && (s[q] == ' ' || s[q] == '\t' || s[q] == '\n')) q++;
      return q - p;
    }
    case 2: {
      if (c != '"') return 0;
      size_t q = s.find('"', p + 1);
      if (q == std::string::npos) return 0;
      return q - p + 1;
    }
    case 3:
    case 4: {
      if (c != (r.matcher == 3 ? '$' : '#')) return 0;
      size_t l = match_int(s, p + 1);
      return l ? l + 1 : 0;
    }
    case 5: {
      if (!is_alpha_(c)) return 0;
      size_t q = p + 1;
      while (q < s.size() && (is_alpha_((unsigned char)s[q]) || is_digit((unsigned char)s[q]))) q++;
      return q - p;
    }
    case 6: return match_int(s, p);
    case 7: {
      if (c != '/' || p + 1 >= s.size() || s[p + 1] != '/') return 0;
      size_t q = p + 2;
      while (q < s.size() && s[q] != '\n') q++;
      return q - p;
    }
    case 8: return 1;
  }
  return 0;
}

// tokenise one file's text (no include handling, no EOF token)
inline std::vector<Tok> lex_text(const std::string &s, const std::string &file) {
  std::vector<Tok> out;
  size_t p = 0;
  int line = 1;
  const auto &R = rules();
  while (p < s.size()) {
    size_t best = 0;
    const Rule *br = nullptr;
    for (auto &r : R) {
      size_t l = match_rule(r, s, p);
      if (l > best) {
        best = l;
        br = &r;
      }
    }
    // rule 8 always matches one byte, so best >= 1
    for (size_t q = p; q < p + best; q++)
      if (s[q] == '\n') line++;
    if (br->k != K::NONE) out.push_back({br->k, s.substr(p, best), file, line});
    p += best;
  }
  return out;
}

struct ScanErr {
  std::string type;  // MAIN_FILE_NOT_FOUND, EXPECTED_FILENAME, FILE_NOT_FOUND, RECURSIVE_INCLUDE
  std::string file;
  int line;     // line of the token the implementation is expected to point at
  std::string request;
  int line_lo = 0;  // any line in [line_lo, line] is a faithful location (directive start .. name end)
};

struct ScanOut {
  std::vector<Tok> toks;  // without the final EOF
  std::vector<ScanErr> errs;
  // index into toks at which the first malformed include (INCLUDE not followed by FNAME) took effect, or -1
  long first_malformed = -1;
};

// R-includes: recursive expansion with the active stack.
inline void scan_rec(const std::map<std::string, std::string> &files, const std::string &name,
                     std::vector<std::string> &active, ScanOut &out) {
  std::vector<Tok> t = lex_text(files.at(name), name);
  active.push_back(name);
  for (size_t i = 0; i < t.size(); i++) {
    if (t[i].k != K::INCLUDE) {
      out.toks.push_back(t[i]);
      continue;
    }
    if (i + 1 >= t.size() || t[i + 1].k != K::FNAME) {
      // reported; what happens to the token after the directive is not specified by the
      // properties - the implementation drops it, which we mirror, and callers only compare
      // the prefix before first_malformed
      int line = (i + 1 < t.size()) ? t[i + 1].line : t[i].line;
      out.errs.push_back({"EXPECTED_FILENAME", name, line, "", t[i].line});
      // a directive that is the last token of its file has no following token to argue about: the
      // including file's tokens must be unaffected, so the comparison goes on
      if (out.first_malformed < 0 && i + 1 < t.size()) out.first_malformed = (long)out.toks.size();
      i++;
      continue;
    }
    const Tok &fn = t[i + 1];
    std::string target = fn.text.substr(1, fn.text.size() - 2);
    i++;
    if (!files.count(target)) {
      out.errs.push_back({"FILE_NOT_FOUND", name, fn.line, target, t[i - 1].line});
      continue;
    }
    bool on_stack = false;
    for (auto &a : active)
      if (a == target) on_stack = true;
    if (on_stack) {
      out.errs.push_back({"RECURSIVE_INCLUDE", name, fn.line, "", t[i - 1].line});
      continue;
    }
    scan_rec(files, target, active, out);
  }
  active.pop_back();
}

inline ScanOut scan(const std::map<std::string, std::string> &files, const std::string &main) {
  ScanOut out;
  if (!files.count(main)) {
    out.errs.push_back({"MAIN_FILE_NOT_FOUND", "-", -1, main, -1});
    return out;
  }
  std::vector<std::string> active;
  scan_rec(files, main, active, out);
  return out;
}

}  // namespace ref
