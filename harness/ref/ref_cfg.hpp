// R-cfg: a small general context-free recogniser / derivation counter (chart over spans with a
// per-span fixpoint, so epsilon rules and cyclic unit rules are handled). Counts are capped at 2:
// 0 = not derivable, 1 = exactly one derivation tree, 2 = ambiguous (or infinitely many trees).
// For count 1 the unique derivation tree can be extracted. Also textbook FIRST sets by fixpoint.
// Includes no repository header.
#pragma once
#include <functional>
#include <map>
#include <set>
#include <string>
#include <vector>

namespace rcfg {

struct Sym {
  bool term = true;
  int id = 0;
};
inline Sym T(int id) { return Sym{true, id}; }
inline Sym N(int id) { return Sym{false, id}; }

struct Rule {
  int lhs = 0;
  std::vector<Sym> rhs;
  int alt = 0;  // index among the alternatives of lhs (in insertion order)
};

struct Grammar {
  int nnt = 0;
  std::vector<Rule> rules;
  int add(int lhs, std::vector<Sym> rhs) {
    int alt = 0;
    for (auto &r : rules)
      if (r.lhs == lhs) alt++;
    rules.push_back({lhs, rhs, alt});
    return (int)rules.size() - 1;
  }
};

struct Tree {
  int rule = -1;  // -1: leaf
  int pos = -1;   // leaf: input position
  int i = 0, j = 0;
  std::vector<Tree> kids;
};

struct Chart {
  const Grammar &g;
  int n;
  // terminal matcher: does terminal symbol id match the input at position pos?
  std::function<bool(int, int)> match;
  std::vector<unsigned char> cnt;  // [A][i][j]
  std::vector<std::vector<int>> by_lhs;

  Chart(const Grammar &g, int n, std::function<bool(int, int)> match) : g(g), n(n), match(match) {
    cnt.assign((size_t)g.nnt * (size_t)(n + 1) * (size_t)(n + 1), 0);
    by_lhs.resize((size_t)g.nnt);
    for (size_t r = 0; r < g.rules.size(); r++) by_lhs[(size_t)g.rules[r].lhs].push_back((int)r);
    for (int len = 0; len <= n; len++)
      for (int i = 0; i + len <= n; i++) {
        int j = i + len;
        bool changed = true;
        while (changed) {
          changed = false;
          for (int A = 0; A < g.nnt; A++) {
            int total = 0;
            for (int r : by_lhs[(size_t)A]) {
              total += ways(g.rules[(size_t)r], i, j);
              if (total >= 2) break;
            }
            if (total > 2) total = 2;
            unsigned char &c = at(A, i, j);
            if (total > c) {
              c = (unsigned char)total;
              changed = true;
            }
          }
        }
      }
  }
  unsigned char &at(int A, int i, int j) { return cnt[((size_t)A * (size_t)(n + 1) + (size_t)i) * (size_t)(n + 1) + (size_t)j]; }
  int count(int A, int i, int j) { return at(A, i, j); }
  int sym_count(const Sym &s, int l, int m) {
    if (s.term) return (m == l + 1 && match(s.id, l)) ? 1 : 0;
    return at(s.id, l, m);
  }
  // number of ways (capped at 2) in which rule's right side derives [i,j)
  int ways(const Rule &r, int i, int j) {
    size_t k = r.rhs.size();
    if (k == 0) return i == j ? 1 : 0;
    std::vector<int> f((size_t)(j - i + 1), 0), nf;
    f[0] = 1;  // f[m-i] = ways the first p symbols derive [i,m)
    for (size_t p = 0; p < k; p++) {
      nf.assign((size_t)(j - i + 1), 0);
      for (int l = i; l <= j; l++) {
        if (!f[(size_t)(l - i)]) continue;
        if (r.rhs[p].term) {
          if (l + 1 <= j && match(r.rhs[p].id, l)) {
            int &x = nf[(size_t)(l + 1 - i)];
            x += f[(size_t)(l - i)];
            if (x > 2) x = 2;
          }
        } else
          for (int m = l; m <= j; m++) {
            int c = at(r.rhs[p].id, l, m);
            if (!c) continue;
            int &x = nf[(size_t)(m - i)];
            x += f[(size_t)(l - i)] * c;
            if (x > 2) x = 2;
          }
      }
      f.swap(nf);
    }
    return f[(size_t)(j - i)];
  }
  // the unique derivation tree of A over [i,j); requires count(A,i,j) == 1
  Tree tree(int A, int i, int j) {
    Tree t;
    t.i = i;
    t.j = j;
    for (int r : by_lhs[(size_t)A]) {
      const Rule &rule = g.rules[(size_t)r];
      std::vector<int> cuts;
      if (split(rule, 0, i, j, cuts)) {
        t.rule = r;
        int l = i;
        for (size_t p = 0; p < rule.rhs.size(); p++) {
          int m = cuts[p];
          if (rule.rhs[p].term) {
            Tree leaf;
            leaf.pos = l;
            leaf.i = l;
            leaf.j = m;
            t.kids.push_back(leaf);
          } else
            t.kids.push_back(tree(rule.rhs[p].id, l, m));
          l = m;
        }
        return t;
      }
    }
    return t;
  }
  bool split(const Rule &r, size_t p, int l, int j, std::vector<int> &cuts) {
    if (p == r.rhs.size()) return l == j;
    for (int m = l; m <= j; m++) {
      if (!sym_count(r.rhs[p], l, m)) continue;
      cuts.push_back(m);
      if (split(r, p + 1, m, j, cuts)) return true;
      cuts.pop_back();
    }
    return false;
  }
};

// textbook FIRST sets: result[A] = set of terminal ids, -1 stands for epsilon
inline std::vector<std::set<int>> first_sets(const Grammar &g) {
  std::vector<std::set<int>> F((size_t)g.nnt);
  bool changed = true;
  while (changed) {
    changed = false;
    for (auto &r : g.rules) {
      std::set<int> &dst = F[(size_t)r.lhs];
      size_t before = dst.size();
      bool all_eps = true;
      for (auto &s : r.rhs) {
        if (s.term) {
          dst.insert(s.id);
          all_eps = false;
          break;
        }
        for (int x : F[(size_t)s.id])
          if (x != -1) dst.insert(x);
        if (!F[(size_t)s.id].count(-1)) {
          all_eps = false;
          break;
        }
      }
      if (all_eps) dst.insert(-1);
      if (dst.size() != before) changed = true;
    }
  }
  return F;
}

}  // namespace rcfg
