// R-macro: reference macro machinery. (a) extraction of well-formed definitions from an R-lex
// token stream, (b) the slot grammar (ID / INT / VALUE / ARGS / P) plus one rule per pattern as
// an rcfg::Grammar, (c) the reference rewriting step: all (macro, start, length) matches by the
// chart recogniser, arg-max by (priority, leftmost, longest), substitution of $n and #n.
// Includes no repository header.
#pragma once
#include <map>
#include <optional>
#include <set>
#include <string>
#include <vector>

#include "ref_cfg.hpp"
#include "ref_lexer.hpp"

namespace rm {

using ref::K;
using ref::Tok;

struct Def {
  long priority = 0;
  std::vector<Tok> pattern, body;
  std::vector<int> slot_positions;  // indices into pattern of template tokens, in order
  int line = 0;                     // line of the first pattern token (where a non-LR error is reported)
  std::string file;
};

inline bool is_slot(K k) { return k == K::ID_TEMP || k == K::INT_TEMP || k == K::VALUE_TEMP || k == K::ARGS_TEMP || k == K::PROG_TEMP; }
inline bool has_text_constraint(K k) { return k == K::ID || k == K::INT || k == K::NV_ID; }

struct Extracted {
  std::vector<Def> defs;
  std::vector<Tok> stream;  // tokens outside definitions (without EOF)
  bool well_formed = true;  // false: something the reference does not model (nested DEFINE, missing AS, ...)
};

// DEFINE [PRIORITY INT] pattern+ AS body* END_DEFINE, pattern/body free of DEFINE / AS / END_DEFINE
inline Extracted extract(const std::vector<Tok> &toks) {
  Extracted e;
  size_t i = 0;
  while (i < toks.size()) {
    if (toks[i].k != K::DEFINE) {
      e.stream.push_back(toks[i++]);
      continue;
    }
    i++;
    Def d;
    if (i < toks.size() && toks[i].k == K::PRIORITY) {
      i++;
      if (i >= toks.size() || toks[i].k != K::INT) {
        e.well_formed = false;
        return e;
      }
      d.priority = strtol(toks[i].text.c_str(), nullptr, 10);
      i++;
    }
    while (i < toks.size() && toks[i].k != K::AS) {
      if (toks[i].k == K::DEFINE || toks[i].k == K::END_DEFINE) {
        e.well_formed = false;
        return e;
      }
      if (is_slot(toks[i].k)) d.slot_positions.push_back((int)d.pattern.size());
      d.pattern.push_back(toks[i++]);
    }
    if (i >= toks.size() || d.pattern.empty()) {
      e.well_formed = false;
      return e;
    }
    i++;  // AS
    while (i < toks.size() && toks[i].k != K::END_DEFINE) {
      if (toks[i].k == K::DEFINE || toks[i].k == K::AS) {
        e.well_formed = false;
        return e;
      }
      d.body.push_back(toks[i++]);
    }
    if (i >= toks.size()) {
      e.well_formed = false;
      return e;
    }
    i++;  // END_DEFINE
    d.line = d.pattern[0].line;
    d.file = d.pattern[0].file;
    for (auto &b : d.body)
      if (b.k == K::INSERTION) {
        long n = strtol(b.text.c_str() + 1, nullptr, 10);
        if (n < 0 || n >= (long)d.slot_positions.size()) e.well_formed = false;  // reported as an error by the implementation
      }
    e.defs.push_back(d);
  }
  return e;
}

// non-terminal numbering of the slot grammar
enum NT { nID = 0, nINT, nVALUE, nARGS, nP, nSTATEMENT, nATOMIC, nMACRO, nCOUNT };

inline rcfg::Grammar slot_grammar() {
  using rcfg::N;
  using rcfg::T;
  rcfg::Grammar g;
  g.nnt = nCOUNT;
  auto t = [](K k) { return T((int)k); };
  g.add(nID, {t(K::ID)});
  g.add(nINT, {t(K::INT)});
  g.add(nVALUE, {N(nID)});
  g.add(nVALUE, {N(nINT)});
  g.add(nVALUE, {t(K::RUN), N(nID), t(K::WITH), N(nARGS), t(K::END)});
  g.add(nVALUE, {t(K::RUN), N(nID), t(K::WITH), t(K::END)});
  g.add(nARGS, {N(nVALUE)});
  g.add(nARGS, {N(nARGS), t(K::ARGSEP), N(nVALUE)});
  g.add(nP, {N(nP), t(K::PROGSEP), N(nSTATEMENT)});
  g.add(nP, {N(nSTATEMENT)});
  g.add(nSTATEMENT, {N(nID), t(K::LABELDEC), N(nATOMIC)});
  g.add(nSTATEMENT, {N(nATOMIC)});
  g.add(nATOMIC, {N(nID), t(K::ASSIGN), N(nVALUE)});
  g.add(nATOMIC, {t(K::LOOP), N(nID), t(K::DO), N(nP), t(K::END)});
  g.add(nATOMIC, {t(K::WHILE), N(nID), t(K::NEQ_ZERO), t(K::DO), N(nP), t(K::END)});
  g.add(nATOMIC, {t(K::GOTO), N(nID)});
  g.add(nATOMIC, {t(K::IF), N(nID), t(K::EQ), N(nINT), t(K::THEN), t(K::GOTO), N(nID)});
  g.add(nATOMIC, {t(K::STOP)});
  return g;
}

inline rcfg::Sym pattern_symbol(const Tok &p, int pos_in_pattern, bool with_text) {
  switch (p.k) {
    case K::ID_TEMP: return rcfg::N(nID);
    case K::INT_TEMP: return rcfg::N(nINT);
    case K::VALUE_TEMP: return rcfg::N(nVALUE);
    case K::ARGS_TEMP: return rcfg::N(nARGS);
    case K::PROG_TEMP: return rcfg::N(nP);
    default:
      if (with_text && has_text_constraint(p.k)) return rcfg::T(1000 + pos_in_pattern);
      return rcfg::T((int)p.k);
  }
}

// grammar for one definition; terminal ids >= 1000 are "pattern literal at position id-1000 with its text"
inline rcfg::Grammar grammar_for(const Def &d, bool with_text) {
  rcfg::Grammar g = slot_grammar();
  std::vector<rcfg::Sym> rhs;
  for (size_t i = 0; i < d.pattern.size(); i++) rhs.push_back(pattern_symbol(d.pattern[i], (int)i, with_text));
  g.add(nMACRO, rhs);
  return g;
}

struct Match {
  int macro = -1, start = 0, length = 0;
  bool ambiguous_derivation = false;
};

// all matches of definition d in stream s (one chart per definition)
inline void matches_of(const Def &d, int mi, const std::vector<Tok> &s, std::vector<Match> &out) {
  rcfg::Grammar g = grammar_for(d, true);
  int n = (int)s.size();
  rcfg::Chart ch(g, n, [&](int id, int pos) {
    if (id >= 1000) {
      const Tok &lit = d.pattern[(size_t)(id - 1000)];
      return s[(size_t)pos].k == lit.k && s[(size_t)pos].text == lit.text;
    }
    return (int)s[(size_t)pos].k == id;
  });
  for (int i = 0; i < n; i++)
    for (int j = i + 1; j <= n; j++) {
      int c = ch.count(nMACRO, i, j);
      if (c) out.push_back({mi, i, j - i, c >= 2});
    }
}

struct StepResult {
  bool any = false;             // some macro matches somewhere
  std::vector<Match> best;      // the arg-max set (more than one entry = full tie between macros)
  std::vector<Match> all;
};

inline StepResult candidates(const std::vector<Def> &defs, const std::vector<bool> &usable, const std::vector<Tok> &s) {
  StepResult r;
  for (size_t m = 0; m < defs.size(); m++)
    if (usable[m]) matches_of(defs[m], (int)m, s, r.all);
  r.any = !r.all.empty();
  if (!r.any) return r;
  long bestp = defs[(size_t)r.all[0].macro].priority;
  for (auto &x : r.all) bestp = std::max(bestp, defs[(size_t)x.macro].priority);
  int beststart = 1 << 30;
  for (auto &x : r.all)
    if (defs[(size_t)x.macro].priority == bestp) beststart = std::min(beststart, x.start);
  int bestlen = 0;
  for (auto &x : r.all)
    if (defs[(size_t)x.macro].priority == bestp && x.start == beststart) bestlen = std::max(bestlen, x.length);
  for (auto &x : r.all)
    if (defs[(size_t)x.macro].priority == bestp && x.start == beststart && x.length == bestlen) r.best.push_back(x);
  return r;
}

struct Applied {
  std::vector<Tok> next;
  // positions in next of tokens that came from #n body tokens, with their n
  std::vector<std::pair<int, long>> temps;
  bool ok = true;  // false: ambiguous derivation (slot boundaries not unique)
};

// apply match x of definition d to s; temporaries get the placeholder text "#<n>" (kind ID)
inline Applied apply(const Def &d, const Match &x, const std::vector<Tok> &s) {
  Applied a;
  if (x.ambiguous_derivation) {
    a.ok = false;
    return a;
  }
  rcfg::Grammar g = grammar_for(d, true);
  std::vector<Tok> win(s.begin() + x.start, s.begin() + x.start + x.length);
  rcfg::Chart ch(g, (int)win.size(), [&](int id, int pos) {
    if (id >= 1000) {
      const Tok &lit = d.pattern[(size_t)(id - 1000)];
      return win[(size_t)pos].k == lit.k && win[(size_t)pos].text == lit.text;
    }
    return (int)win[(size_t)pos].k == id;
  });
  rcfg::Tree t = ch.tree(nMACRO, 0, (int)win.size());
  if (t.rule < 0 || t.kids.size() != d.pattern.size()) {
    a.ok = false;
    return a;
  }
  a.next.assign(s.begin(), s.begin() + x.start);
  for (auto &b : d.body) {
    if (b.k == K::INSERTION) {
      long n = strtol(b.text.c_str() + 1, nullptr, 10);
      const rcfg::Tree &kid = t.kids[(size_t)d.slot_positions[(size_t)n]];
      for (int p = kid.i; p < kid.j; p++) a.next.push_back(win[(size_t)p]);
    } else if (b.k == K::TEMP_VAL) {
      long n = strtol(b.text.c_str() + 1, nullptr, 10);
      Tok nt = b;
      nt.k = K::ID;
      a.temps.push_back({(int)a.next.size(), n});
      a.next.push_back(nt);
    } else
      a.next.push_back(b);
  }
  a.next.insert(a.next.end(), s.begin() + x.start + x.length, s.end());
  return a;
}

}  // namespace rm
