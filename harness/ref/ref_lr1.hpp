// R-lr1: textbook canonical LR(1) construction (closure / goto, FIRST by fixpoint) over an
// rcfg::Grammar, with "prefix mode": an item whose lookahead is the end marker acts on every
// terminal of the universe. A conflict is a table cell holding two *different* actions
// (shift / reduce by rule r / accept). Includes no repository header.
#pragma once
#include <map>
#include <set>
#include <tuple>
#include <vector>

#include "ref_cfg.hpp"

namespace rlr {

struct Item {
  int rule, dot, la;
  bool operator<(const Item &o) const { return std::tie(rule, dot, la) < std::tie(o.rule, o.dot, o.la); }
  bool operator==(const Item &o) const { return rule == o.rule && dot == o.dot && la == o.la; }
};
typedef std::set<Item> State;

struct Result {
  bool conflict = false;
  int states = 0;
  std::string first_conflict;
};

inline Result analyse(rcfg::Grammar g, int start_nt, int eof, int universe, bool prefix) {
  Result res;
  // augment: S' -> S
  int sprime = g.nnt++;
  int aug = g.add(sprime, {rcfg::N(start_nt)});
  std::vector<std::set<int>> F = rcfg::first_sets(g);
  std::vector<std::vector<int>> by_lhs((size_t)g.nnt);
  for (size_t r = 0; r < g.rules.size(); r++) by_lhs[(size_t)g.rules[r].lhs].push_back((int)r);

  auto first_of = [&](const std::vector<rcfg::Sym> &rhs, size_t from, int la) {
    std::set<int> out;
    for (size_t i = from; i < rhs.size(); i++) {
      if (rhs[i].term) {
        out.insert(rhs[i].id);
        return out;
      }
      for (int x : F[(size_t)rhs[i].id])
        if (x != -1) out.insert(x);
      if (!F[(size_t)rhs[i].id].count(-1)) return out;
    }
    out.insert(la);
    return out;
  };
  auto closure = [&](State s) {
    std::vector<Item> work(s.begin(), s.end());
    while (!work.empty()) {
      Item it = work.back();
      work.pop_back();
      const rcfg::Rule &r = g.rules[(size_t)it.rule];
      if ((size_t)it.dot >= r.rhs.size() || r.rhs[(size_t)it.dot].term) continue;
      int B = r.rhs[(size_t)it.dot].id;
      std::set<int> las = first_of(r.rhs, (size_t)it.dot + 1, it.la);
      for (int br : by_lhs[(size_t)B])
        for (int b : las) {
          Item ni{br, 0, b};
          if (s.insert(ni).second) work.push_back(ni);
        }
    }
    return s;
  };
  std::vector<State> states;
  std::map<State, int> index;
  State s0 = closure(State{Item{aug, 0, eof}});
  states.push_back(s0);
  index[s0] = 0;
  // actions per cell: encode shift as (0,target), reduce as (1,rule), accept as (2,0)
  std::map<std::pair<int, int>, std::set<std::pair<int, int>>> cells;
  for (size_t si = 0; si < states.size(); si++) {
    State cur = states[si];
    std::map<std::pair<bool, int>, State> moves;
    for (auto &it : cur) {
      const rcfg::Rule &r = g.rules[(size_t)it.rule];
      if ((size_t)it.dot < r.rhs.size()) {
        const rcfg::Sym &x = r.rhs[(size_t)it.dot];
        moves[{x.term, x.id}].insert(Item{it.rule, it.dot + 1, it.la});
      } else {
        std::pair<int, int> act = it.rule == aug ? std::make_pair(2, 0) : std::make_pair(1, it.rule);
        if (prefix && it.la == eof) {
          for (int t = 0; t < universe; t++) cells[{(int)si, t}].insert(act);
        } else
          cells[{(int)si, it.la}].insert(act);
      }
    }
    for (auto &mv : moves) {
      State nxt = closure(mv.second);
      auto f = index.find(nxt);
      int target;
      if (f == index.end()) {
        target = (int)states.size();
        states.push_back(nxt);
        index[nxt] = target;
      } else
        target = f->second;
      if (mv.first.first) cells[{(int)si, mv.first.second}].insert({0, target});
    }
    if (states.size() > 20000) break;  // safety
  }
  res.states = (int)states.size();
  for (auto &c : cells)
    if (c.second.size() >= 2) {
      res.conflict = true;
      res.first_conflict = "state " + std::to_string(c.first.first) + " terminal " + std::to_string(c.first.second);
      break;
    }
  return res;
}

}  // namespace rlr
