// R-interp: reference interpreter for the generator's AST (gen_program.hpp). Natural-number
// semantics with unbounded (64-bit, range-checked) integers, an explicit activation stack with
// zero-initialised locals, flattened control flow per routine so that GOTO into/out of loop
// bodies is defined: LOOP x DO B END == c:=x; WHILE c!=0 DO B; c:=c-1 END with a hidden counter c
// per loop and activation. The macro-library constructs are interpreted natively (the expansion
// is the implementation's business). Includes no repository header.
#pragma once
#include <functional>
#include <map>
#include <set>
#include <string>
#include <vector>

#include "../common/gen_program.hpp"

namespace ri {

using gp::Program;
using gp::Routine;
using gp::Stmt;
using gp::Val;

struct Op {
  enum K { SITE, SET, DEC, JZ, JMP, IFEQ, STOP, SWAP, RET } k = SITE;
  std::string dst, var;  // SET dst := val ; DEC dst ; JZ var ; IFEQ var
  Val val;
  long long c = 0;
  int target = -1;
  std::string label;  // unresolved target
  long tok = -1;      // SITE: printed-token index (location)
  int kind = 0;       // SITE kind: 0 statement, 1 loop/while header, 2 loop/while END, 3 program END
};

struct Flat {
  std::vector<Op> ops;
  std::map<std::string, int> labels;
};

struct Flattener {
  const gp::Layout *L = nullptr;  // may be null (no locations)
  int hidden = 0;
  Flat f;

  long ftok(const Stmt *s) {
    if (!L) return -1;
    auto it = L->first_tok.find(s);
    return it == L->first_tok.end() ? -1 : (long)it->second;
  }
  long etok(const Stmt *s) {
    if (!L) return -1;
    auto it = L->end_tok.find(s);
    return it == L->end_tok.end() ? -1 : (long)it->second;
  }
  int emit(Op o) {
    f.ops.push_back(o);
    return (int)f.ops.size() - 1;
  }
  void site(long tok, int kind) {
    Op o;
    o.k = Op::SITE;
    o.tok = tok;
    o.kind = kind;
    emit(o);
  }
  void block(const std::vector<Stmt> &b) {
    for (auto &s : b) stmt(s);
  }
  void stmt(const Stmt &s) {
    // labels resolve to the statement's site, so a jump to a label stops on the label's line
    for (auto &l : s.labels) f.labels[l] = (int)f.ops.size();
    switch (s.k) {
      case Stmt::ASSIGN: {
        site(ftok(&s), 0);
        Op o;
        o.k = Op::SET;
        o.dst = s.x;
        o.val = s.v;
        emit(o);
        break;
      }
      case Stmt::LOOP: {
        site(ftok(&s), 1);
        std::string h = "%loop" + std::to_string(hidden++);
        Op init;
        init.k = Op::SET;
        init.dst = h;
        init.val.k = Val::VAR;
        init.val.var = s.x;
        emit(init);
        int start = (int)f.ops.size();
        Op jz;
        jz.k = Op::JZ;
        jz.var = h;
        int jzi = emit(jz);
        block(s.body);
        Op dec;
        dec.k = Op::DEC;
        dec.dst = h;
        emit(dec);
        Op back;
        back.k = Op::JMP;
        back.target = start;
        emit(back);
        f.ops[(size_t)jzi].target = (int)f.ops.size();
        site(etok(&s), 2);
        break;
      }
      case Stmt::WHILE: {
        site(ftok(&s), 1);
        int start = (int)f.ops.size();
        Op jz;
        jz.k = Op::JZ;
        jz.var = s.x;
        int jzi = emit(jz);
        block(s.body);
        Op back;
        back.k = Op::JMP;
        back.target = start;
        emit(back);
        f.ops[(size_t)jzi].target = (int)f.ops.size();
        site(etok(&s), 2);
        break;
      }
      case Stmt::GOTO: {
        site(ftok(&s), 0);
        Op o;
        o.k = Op::JMP;
        o.label = s.target;
        emit(o);
        break;
      }
      case Stmt::IFGOTO: {
        site(ftok(&s), 0);
        Op o;
        o.k = Op::IFEQ;
        o.var = s.x;
        o.c = s.c;
        o.label = s.target;
        emit(o);
        break;
      }
      case Stmt::STOP: {
        site(ftok(&s), 0);
        Op o;
        o.k = Op::STOP;
        emit(o);
        break;
      }
      case Stmt::M_SWAP: {
        site(ftok(&s), 0);
        Op o;
        o.k = Op::SWAP;
        o.dst = s.x;
        o.var = s.y;
        emit(o);
        break;
      }
      case Stmt::M_IFELSE: {
        site(ftok(&s), 0);
        std::string h = "%if" + std::to_string(hidden++);
        Op ev;
        ev.k = Op::SET;
        ev.dst = h;
        ev.val = s.v;
        emit(ev);
        Op jz;
        jz.k = Op::JZ;
        jz.var = h;
        int jzi = emit(jz);
        block(s.body);
        Op skip;
        skip.k = Op::JMP;
        int ski = emit(skip);
        f.ops[(size_t)jzi].target = (int)f.ops.size();
        block(s.body2);
        f.ops[(size_t)ski].target = (int)f.ops.size();
        break;
      }
      case Stmt::M_REPEAT: {
        site(ftok(&s), 0);
        std::string h = "%rep" + std::to_string(hidden++);
        Op init;
        init.k = Op::SET;
        init.dst = h;
        init.val.k = Val::CONST;
        init.val.c = s.c;
        emit(init);
        int start = (int)f.ops.size();
        Op jz;
        jz.k = Op::JZ;
        jz.var = h;
        int jzi = emit(jz);
        block(s.body);
        Op dec;
        dec.k = Op::DEC;
        dec.dst = h;
        emit(dec);
        Op back;
        back.k = Op::JMP;
        back.target = start;
        emit(back);
        f.ops[(size_t)jzi].target = (int)f.ops.size();
        break;
      }
    }
  }
  Flat finish(long end_tok) {
    if (end_tok >= -1) site(end_tok, 3);
    Op r;
    r.k = Op::RET;
    emit(r);
    for (auto &o : f.ops)
      if (!o.label.empty()) {
        auto it = f.labels.find(o.label);
        o.target = it == f.labels.end() ? -1 : it->second;
      }
    return f;
  }
};

struct Frame {
  int routine = -1;  // -1: main
  std::string name;
  std::map<std::string, long long> vars;  // includes hidden %-variables
};

struct Halt {};
struct Budget {};
struct Big {};

static const long long WORD_MAX = 2147483647LL;  // values must stay below this

struct Interp {
  const Program &p;
  std::vector<Flat> flats;  // per def
  Flat mainflat;
  std::vector<Frame> stack;
  long long ops = 0, work = 0;
  long long max_ops = 6000, max_work = 20000;
  long long max_value = 0;
  size_t max_depth = 0;
  long long calls = 0, loop_iters = 0, jumps_taken = 0, returns = 0;
  // called at every SITE op with the token index and kind
  std::function<void(long, int)> on_site;

  Interp(const Program &p, const gp::Layout *L) : p(p) {
    for (auto &r : p.defs) {
      Flattener fl;
      fl.L = L;
      fl.block(r.body);
      long et = -1;
      if (L) {
        auto it = L->rend_tok.find(&r);
        if (it != L->rend_tok.end()) et = (long)it->second;
      }
      flats.push_back(fl.finish(et));
    }
    Flattener fl;
    fl.L = L;
    fl.block(p.main);
    mainflat = fl.finish(-2);  // main has no END line
  }

  long long get(Frame &f, const std::string &v) {
    auto it = f.vars.find(v);
    return it == f.vars.end() ? 0 : it->second;
  }
  void chk(long long v) {
    if (v > max_value) max_value = v;
    if (v >= WORD_MAX) throw Big();
  }
  void tick(long long w = 1) {
    ops++;
    work += w;
    if (ops > max_ops || work > max_work) throw Budget();
  }

  long long eval(const Val &v) {
    switch (v.k) {
      case Val::CONST: chk(v.c); return v.c;
      case Val::VAR: return get(stack.back(), v.var);
      case Val::INC: {
        chk(v.c);
        long long r = get(stack.back(), v.var) + v.c;
        chk(r);
        return r;
      }
      case Val::DEC: {
        chk(v.c);
        long long r = get(stack.back(), v.var) - v.c;
        return r < 0 ? 0 : r;
      }
      case Val::CALL:
      case Val::CALLP: {
        std::vector<long long> args;
        for (auto &a : v.args) args.push_back(eval(a));
        return call(v.callee, args);
      }
      case Val::ADD: {
        long long a = eval(v.args[0]), b = eval(v.args[1]);
        long long r = a + b;
        chk(r);
        work += 12 + 4 * b;  // cost of the helper program the macro expands to
        if (work > max_work) throw Budget();
        return r;
      }
      case Val::MUL: {
        long long a = eval(v.args[0]), b = eval(v.args[1]);
        if (a != 0 && b > (WORD_MAX / a)) throw Big();
        long long r = a * b;
        chk(r);
        // the helper adds b a times; intermediate sums are <= r
        long long w = 12 + a * (16 + 4 * b);
        work += w;
        if (work > max_work) throw Budget();
        return r;
      }
    }
    return 0;
  }

  long long call(int callee, const std::vector<long long> &args) {
    const Routine &r = p.defs[(size_t)callee];
    Frame f;
    f.routine = callee;
    f.name = r.name;
    for (size_t i = 0; i < r.params.size(); i++) f.vars[r.params[i]] = args[i];
    stack.push_back(f);
    calls++;
    if (stack.size() > max_depth) max_depth = stack.size();
    run(flats[(size_t)callee]);
    long long ret = get(stack.back(), r.has_out ? r.out : std::string("x0"));
    stack.pop_back();
    returns++;
    return ret;
  }

  void run(const Flat &fl) {
    size_t pc = 0;
    for (;;) {
      const Op &o = fl.ops[pc];
      switch (o.k) {
        case Op::SITE:
          if (on_site && o.tok >= 0) on_site(o.tok, o.kind);
          pc++;
          break;
        case Op::SET: {
          tick();
          long long v = eval(o.val);
          stack.back().vars[o.dst] = v;
          pc++;
          break;
        }
        case Op::DEC: {
          tick();
          long long v = get(stack.back(), o.dst) - 1;
          stack.back().vars[o.dst] = v < 0 ? 0 : v;
          loop_iters++;
          pc++;
          break;
        }
        case Op::JZ:
          tick();
          if (get(stack.back(), o.var) == 0)
            pc = (size_t)o.target;
          else
            pc++;
          break;
        case Op::JMP:
          tick();
          if (!o.label.empty()) jumps_taken++;
          pc = (size_t)o.target;
          break;
        case Op::IFEQ:
          tick();
          if (get(stack.back(), o.var) == o.c) {
            jumps_taken++;
            pc = (size_t)o.target;
          } else
            pc++;
          break;
        case Op::STOP: tick(); throw Halt();
        case Op::SWAP: {
          tick(3);
          long long a = get(stack.back(), o.dst), b = get(stack.back(), o.var);
          stack.back().vars[o.dst] = b;
          stack.back().vars[o.var] = a;
          pc++;
          break;
        }
        case Op::RET: return;
      }
    }
  }

  enum Status { DONE, DIVERGED, BIG };
  // runs the whole program; on DONE `stack` holds the live activations at the end
  Status execute() {
    Frame m;
    m.routine = -1;
    m.name = "#root";
    stack.clear();
    stack.push_back(m);
    max_depth = 1;
    try {
      run(mainflat);
    } catch (Halt &) {
      return DONE;
    } catch (Budget &) {
      return DIVERGED;
    } catch (Big &) {
      return BIG;
    }
    return DONE;
  }
};

// Oracle self-check: a second, structurally recursive (big-step) interpreter for programs without GOTO / IF-GOTO.
// It shares only the AST and the value evaluator's arithmetic with the flat interpreter above: no flattening, no
// labels, no program counter. For jump-free programs both must end in the same state; a disagreement is an error of
// the harness (reported as CHECK-BROKEN), never a violation.
struct BigStep {
  const Program &p;
  std::vector<Frame> stack;
  long long steps = 0, max_steps = 200000;
  bool gave_up = false;
  explicit BigStep(const Program &p) : p(p) {}
  struct Stop {};
  struct GiveUp {};

  long long get(const std::string &v) {
    auto it = stack.back().vars.find(v);
    return it == stack.back().vars.end() ? 0 : it->second;
  }
  void tick() {
    if (++steps > max_steps) throw GiveUp();
  }
  long long eval(const Val &v) {
    tick();
    switch (v.k) {
      case Val::CONST: return v.c;
      case Val::VAR: return get(v.var);
      case Val::INC: return get(v.var) + v.c;
      case Val::DEC: return std::max<long long>(0, get(v.var) - v.c);
      case Val::CALL:
      case Val::CALLP: {
        std::vector<long long> args;
        for (auto &a : v.args) args.push_back(eval(a));
        const Routine &r = p.defs[(size_t)v.callee];
        Frame f;
        f.routine = v.callee;
        f.name = r.name;
        for (size_t i = 0; i < r.params.size(); i++) f.vars[r.params[i]] = args[i];
        stack.push_back(f);
        exec(r.body);
        long long ret = get(r.has_out ? r.out : std::string("x0"));
        stack.pop_back();
        return ret;
      }
      case Val::ADD: return eval(v.args[0]) + eval(v.args[1]);
      case Val::MUL: return eval(v.args[0]) * eval(v.args[1]);
    }
    return 0;
  }
  void exec(const std::vector<Stmt> &b) {
    for (auto &s : b) {
      tick();
      switch (s.k) {
        case Stmt::ASSIGN: {
          long long v = eval(s.v);
          if (v >= WORD_MAX) throw GiveUp();
          stack.back().vars[s.x] = v;
          break;
        }
        case Stmt::LOOP: {
          long long n = get(s.x);
          for (long long i = 0; i < n; i++) exec(s.body);
          break;
        }
        case Stmt::WHILE:
          while (get(s.x) != 0) exec(s.body);
          break;
        case Stmt::STOP: throw Stop();
        case Stmt::M_IFELSE:
          if (eval(s.v) != 0)
            exec(s.body);
          else
            exec(s.body2);
          break;
        case Stmt::M_SWAP: {
          long long a = get(s.x), b2 = get(s.y);
          stack.back().vars[s.x] = b2;
          stack.back().vars[s.y] = a;
          break;
        }
        case Stmt::M_REPEAT:
          for (long long i = 0; i < s.c; i++) exec(s.body);
          break;
        default: throw GiveUp();  // GOTO / IFGOTO: not in this interpreter's domain
      }
    }
  }
  // returns false if it gave up (budget / big values / jumps)
  bool run() {
    Frame m;
    m.routine = -1;
    m.name = "#root";
    stack.clear();
    stack.push_back(m);
    try {
      exec(p.main);
    } catch (Stop &) {
      return true;
    } catch (GiveUp &) {
      gave_up = true;
      return false;
    }
    return true;
  }
};

// compares the user-visible part of two final states (hidden %-variables of the flat interpreter are ignored)
inline bool same_state(const std::vector<Frame> &a, const std::vector<Frame> &b, std::string &why) {
  if (a.size() != b.size()) {
    why = "activation depth " + std::to_string(a.size()) + " vs " + std::to_string(b.size());
    return false;
  }
  for (size_t i = 0; i < a.size(); i++) {
    if (a[i].name != b[i].name) {
      why = "activation " + std::to_string(i) + " name";
      return false;
    }
    std::set<std::string> names;
    for (auto &e : a[i].vars)
      if (e.first[0] != '%') names.insert(e.first);
    for (auto &e : b[i].vars)
      if (e.first[0] != '%') names.insert(e.first);
    for (auto &n : names) {
      auto x = a[i].vars.find(n), y = b[i].vars.find(n);
      long long vx = x == a[i].vars.end() ? 0 : x->second, vy = y == b[i].vars.end() ? 0 : y->second;
      if (vx != vy) {
        why = "activation " + std::to_string(i) + " variable " + n + ": " + std::to_string(vx) + " vs " + std::to_string(vy);
        return false;
      }
    }
  }
  return true;
}

}  // namespace ri
