// R-accept: reference acceptor for macro-free sources. R-lex tokens -> built-in sugar
// (ID ('+'|'-') INT, left to right) -> recursive-descent recognition of the documented LL(1)
// grammar (Compiler/src/parse.cpp, comment) -> static rules (calls bind to the latest complete
// earlier definition with equal arity; jump targets are labels of the same body; literals
// below 2^31-1). No error recovery: the only output is accept / reject (+ reason) and a few
// facts about the source (duplicate labels / parameters, which leave the verdict open).
// Includes no repository header.
#pragma once
#include <functional>
#include <map>
#include <set>
#include <string>
#include <vector>

#include "ref_lexer.hpp"

namespace ra {

using ref::K;
using ref::Tok;

struct Verdict {
  bool accept = false;
  std::string reason;          // why rejected
  bool open = false;           // duplicate labels / duplicate parameter names / macro definitions: not judged
  std::string open_reason;
  bool reference_attempt = false;  // rejected because of a self / forward / unknown program reference
  int sugar_uses = 0;
  size_t ntokens = 0;
  std::map<std::string, std::set<size_t>> arities;  // parameter counts of the definitions, by name (syntactically valid sources)
};

// apply the built-in sugar to a token vector: ID '+'/'-' INT -> RUN __INC__/__DEC__ WITH id , int END
inline std::vector<Tok> apply_sugar(const std::vector<Tok> &in, int &uses) {
  std::vector<Tok> out;
  size_t i = 0;
  while (i < in.size()) {
    if (i + 2 < in.size() && in[i].k == K::ID && in[i + 1].k == K::NV_ID &&
        (in[i + 1].text == "+" || in[i + 1].text == "-") && in[i + 2].k == K::INT) {
      bool inc = in[i + 1].text == "+";
      auto mk = [&](K k, const std::string &t) {
        Tok x;
        x.k = k;
        x.text = t;
        x.file = "__standards__";
        x.line = inc ? 1 : 2;
        return x;
      };
      out.push_back(mk(K::RUN, "RUN"));
      out.push_back(mk(K::ID, inc ? "__INC__" : "__DEC__"));
      out.push_back(mk(K::WITH, "WITH"));
      out.push_back(in[i]);
      out.push_back(mk(K::ARGSEP, ","));
      out.push_back(in[i + 2]);
      out.push_back(mk(K::END, "END"));
      uses++;
      i += 3;
    } else
      out.push_back(in[i++]);
  }
  return out;
}

struct ValueN {
  enum { ID, INT, CALL } k = ID;
  std::string text;  // id / int text / callee name
  std::vector<ValueN> args;
};

struct BodyFacts {
  std::set<std::string> labels;
  bool dup_label = false;
  std::vector<std::string> targets;
  std::vector<ValueN> values;             // every VALUE in the body, in source order
  std::vector<std::string> if_constants;  // INT of IF id = INT
};

struct Def {
  std::string name;
  std::vector<std::string> params;
  BodyFacts body;
};

struct Parser {
  const std::vector<Tok> &t;
  size_t p = 0;
  bool ok = true;
  std::string why;
  explicit Parser(const std::vector<Tok> &t) : t(t) {}
  K la() const { return p < t.size() ? t[p].k : K::T_EOF; }
  void fail(const std::string &m) {
    if (ok) {
      ok = false;
      why = m + " at token #" + std::to_string(p) + (p < t.size() ? " '" + t[p].text + "'" : " <eof>");
    }
  }
  bool eat(K k) {
    if (!ok) return false;
    if (la() != k) {
      fail(std::string("expected ") + ref::kname(k));
      return false;
    }
    p++;
    return true;
  }
  std::string eat_text(K k) {
    std::string s = p < t.size() ? t[p].text : "";
    eat(k);
    return s;
  }

  ValueN value() {
    ValueN v;
    if (!ok) return v;
    switch (la()) {
      case K::ID:
        v.k = ValueN::ID;
        v.text = eat_text(K::ID);
        break;
      case K::INT:
        v.k = ValueN::INT;
        v.text = eat_text(K::INT);
        break;
      case K::RUN: {
        eat(K::RUN);
        v.k = ValueN::CALL;
        v.text = eat_text(K::ID);
        eat(K::WITH);
        if (la() == K::ID || la() == K::INT || la() == K::RUN) {
          v.args.push_back(value());
          while (ok && la() == K::ARGSEP) {
            eat(K::ARGSEP);
            v.args.push_back(value());
          }
        }
        eat(K::END);
        break;
      }
      default: fail("expected value");
    }
    return v;
  }

  // P -> statement MOREP
  void P(BodyFacts &b) {
    for (;;) {
      if (!ok) return;
      statement(b);
      if (!ok) return;
      if (la() == K::PROGSEP) {
        eat(K::PROGSEP);
        continue;
      }
      return;
    }
  }
  void statement(BodyFacts &b) {
    switch (la()) {
      case K::ID: {
        std::string id = eat_text(K::ID);
        if (la() == K::ASSIGN) {
          eat(K::ASSIGN);
          b.values.push_back(value());
        } else if (la() == K::LABELDEC) {
          eat(K::LABELDEC);
          if (!b.labels.insert(id).second) b.dup_label = true;
          // PID -> : P MOREP  (the labelled P is a whole sequence; equivalent to continuing the sequence)
          statement(b);
        } else
          fail("expected := or :");
        break;
      }
      case K::LOOP:
        eat(K::LOOP);
        eat(K::ID);
        eat(K::DO);
        P(b);
        eat(K::END);
        break;
      case K::WHILE:
        eat(K::WHILE);
        eat(K::ID);
        eat(K::NEQ_ZERO);
        eat(K::DO);
        P(b);
        eat(K::END);
        break;
      case K::GOTO:
        eat(K::GOTO);
        b.targets.push_back(eat_text(K::ID));
        break;
      case K::IF:
        eat(K::IF);
        eat(K::ID);
        eat(K::EQ);
        b.if_constants.push_back(eat_text(K::INT));
        eat(K::THEN);
        eat(K::GOTO);
        b.targets.push_back(eat_text(K::ID));
        break;
      case K::STOP: eat(K::STOP); break;
      default: fail("expected statement");
    }
  }
};

inline bool literal_ok(const std::string &digits) {
  // below 2^31-1 = 2147483647
  if (digits.size() < 10) return true;
  if (digits.size() > 10) return false;
  return digits < std::string("2147483647");
}

inline Verdict judge_tokens(const std::vector<Tok> &raw) {
  Verdict v;
  v.ntokens = raw.size();
  for (auto &t : raw)
    if (t.k == K::DEFINE) {
      v.open = true;
      v.open_reason = "macro definition";
      return v;
    }
  std::vector<Tok> toks = apply_sugar(raw, v.sugar_uses);
  if (v.sugar_uses >= 1000) {
    v.open = true;
    v.open_reason = "close to the macro pass budget";
    return v;
  }
  Parser ps(toks);
  std::vector<Def> defs;
  BodyFacts mainb;
  bool dup_param = false;
  // S -> PROGRAM id PORTS do P end S | P
  while (ps.ok && ps.la() == K::PROGRAM) {
    ps.eat(K::PROGRAM);
    Def d;
    d.name = ps.eat_text(K::ID);
    if (ps.la() == K::IN) {
      ps.eat(K::IN);
      d.params.push_back(ps.eat_text(K::ID));
      while (ps.ok && ps.la() == K::ARGSEP) {
        ps.eat(K::ARGSEP);
        d.params.push_back(ps.eat_text(K::ID));
      }
      if (ps.la() == K::OUT) {
        ps.eat(K::OUT);
        ps.eat(K::ID);
      }
    }
    ps.eat(K::DO);
    ps.P(d.body);
    ps.eat(K::END);
    std::set<std::string> seen;
    for (auto &pn : d.params)
      if (!seen.insert(pn).second) dup_param = true;
    v.arities[d.name].insert(d.params.size());
    defs.push_back(d);
  }
  ps.P(mainb);
  if (ps.ok && ps.p != toks.size()) ps.fail("trailing input");
  if (!ps.ok) {
    v.accept = false;
    v.reason = "syntax: " + ps.why;
    return v;
  }
  // open cases
  bool dup_label = mainb.dup_label;
  for (auto &d : defs) dup_label = dup_label || d.body.dup_label;
  if (dup_label || dup_param) {
    v.open = true;
    v.open_reason = dup_label ? "duplicate label" : "duplicate parameter name";
    return v;
  }
  // static rules
  std::map<std::string, size_t> arity;  // latest complete definition so far
  std::set<std::string> all_names;
  for (auto &d : defs) all_names.insert(d.name);
  auto check_body = [&](const BodyFacts &b, const std::string &self) -> bool {
    std::function<bool(const ValueN &)> val = [&](const ValueN &x) -> bool {
      if (x.k == ValueN::INT) {
        if (!literal_ok(x.text)) {
          v.reason = "literal " + x.text + " out of range";
          return false;
        }
        return true;
      }
      if (x.k == ValueN::ID) return true;
      for (auto &a : x.args)
        if (!val(a)) return false;
      bool builtin = (x.text == "__INC__" || x.text == "__DEC__") && x.args.size() == 2 && x.args[0].k == ValueN::ID &&
                     x.args[1].k == ValueN::INT;
      if (builtin) return true;
      auto it = arity.find(x.text);
      if (it == arity.end()) {
        v.reason = "call of '" + x.text + "' which has no complete earlier definition";
        if (x.text == self || all_names.count(x.text)) v.reference_attempt = true;
        return false;
      }
      if (it->second != x.args.size()) {
        v.reason = "call of '" + x.text + "' with " + std::to_string(x.args.size()) + " arguments, it has " +
                   std::to_string(it->second) + " parameters";
        return false;
      }
      return true;
    };
    for (auto &x : b.values)
      if (!val(x)) return false;
    for (auto &c : b.if_constants)
      if (!literal_ok(c)) {
        v.reason = "literal " + c + " out of range";
        return false;
      }
    for (auto &tgt : b.targets)
      if (!b.labels.count(tgt)) {
        v.reason = "jump to '" + tgt + "' which is no label of the same body";
        return false;
      }
    return true;
  };
  for (auto &d : defs) {
    if (!check_body(d.body, d.name)) return v;
    arity[d.name] = d.params.size();
  }
  if (!check_body(mainb, "")) return v;
  v.accept = true;
  return v;
}

// whole-source judgement: lex (single file, no includes assumed by callers that pass one file), then judge
inline Verdict judge_source(const std::map<std::string, std::string> &files, const std::string &main) {
  ref::ScanOut so = ref::scan(files, main);
  if (!so.errs.empty()) {
    Verdict v;
    v.accept = false;
    v.reason = "scan error: " + so.errs[0].type;
    v.ntokens = so.toks.size();
    return v;
  }
  return judge_tokens(so.toks);
}

}  // namespace ra
