// p_macro: C09 (faithful substitution: highest priority, leftmost, longest), C10 (hygienic
// temporaries, token level), C11 (termination within the pass budget), C12 (ambiguous patterns
// rejected, deterministic ones accepted).
#include "../common/harness.hpp"
#include "../ref/ref_lr1.hpp"
#include "../ref/ref_macro.hpp"
#include "glue.hpp"

using namespace verif;
using ref::K;
using ref::Tok;

// ------------------------------------------------------------------------------ implementation side
struct ImplSide {
  std::vector<Theo::Token> input;  // output of extract_macros (ends with EOF)
  std::vector<Theo::MacroDefinition> defs;
  std::vector<Theo::ParseError> extract_errors;
};

static ImplSide impl_prepare(const glue::Files &files) {
  ImplSide s;
  Theo::ScanResult sr = Theo::scan(files, "m");
  Theo::MacroExtractionResult mer = Theo::extract_macros(sr.toks);
  s.input = mer.tokens;
  s.defs = mer.macros;
  s.extract_errors = mer.errors;
  return s;
}

static std::vector<Tok> strip_eof(const std::vector<Theo::Token> &v) {
  std::vector<Tok> out;
  for (auto &t : v)
    if (t.t != Theo::Token::T_EOF) out.push_back(glue::to_ref(t));
  return out;
}

static std::string toks_str(const std::vector<Tok> &v, size_t maxn = 60) {
  std::string s;
  for (size_t i = 0; i < v.size() && i < maxn; i++) s += (i ? " " : "") + v[i].text;
  if (v.size() > maxn) s += " ...";
  return s;
}

// compare an expected sequence (with temp placeholders) against the implementation's; on success
// returns true and fills temp_text[n] = text used for temporary n
static bool same_modulo_temps(const rm::Applied &a, const std::vector<Tok> &got, std::map<long, std::string> &temp_text, std::string &why) {
  if (a.next.size() != got.size()) {
    why = "length " + std::to_string(got.size()) + " instead of " + std::to_string(a.next.size());
    return false;
  }
  std::map<int, long> tpos;
  for (auto &t : a.temps) tpos[t.first] = t.second;
  for (size_t i = 0; i < got.size(); i++) {
    auto tp = tpos.find((int)i);
    if (tp != tpos.end()) {
      if (got[i].k != K::ID) {
        why = "token #" + std::to_string(i) + " should be the identifier standing for a temporary";
        return false;
      }
      auto f = temp_text.find(tp->second);
      if (f == temp_text.end())
        temp_text[tp->second] = got[i].text;
      else if (f->second != got[i].text) {
        why = "temporary #" + std::to_string(tp->second) + " has two different names in one step ('" + f->second + "' and '" + got[i].text + "')";
        return false;
      }
      continue;
    }
    const Tok &e = a.next[i];
    if (e.k != got[i].k || e.text != got[i].text || e.file != got[i].file || e.line != got[i].line) {
      why = "token #" + std::to_string(i) + " is '" + got[i].text + "'@" + got[i].file + ":" + std::to_string(got[i].line) + ", expected '" + e.text + "'@" +
            e.file + ":" + std::to_string(e.line);
      return false;
    }
  }
  return true;
}

struct RunStats {
  int steps = 0, competing_steps = 0, temp_steps = 0, ties = 0;
  bool finished = false, ambiguous = false, budget_hit = false;
  std::vector<std::map<long, std::string>> temps_per_step;
  std::set<std::string> input_ids;
};

struct Prepared {
  glue::Files files;
  ImplSide impl;
  rm::Extracted refx;
  std::vector<bool> usable;
  bool ok = false;
};

// shared preparation; fails the case (harness discard) when the reference does not model the definitions
static bool prepare(const glue::Files &files, Prepared &p, Result &r) {
  p.files = files;
  p.impl = impl_prepare(files);
  p.refx = rm::extract(ref::scan(files, "m").toks);
  if (!p.refx.well_formed || !p.impl.extract_errors.empty() || p.impl.defs.size() != p.refx.defs.size()) {
    r.discard = true;
    r.cls("discard:definitions-not-modelled");
    return false;
  }
  // which definitions does the implementation consider usable (no non-LR error at the definition's line)?
  std::vector<Theo::MacroDefinition> defs = p.impl.defs;
  Theo::MacroApplicationResult res = Theo::apply_macros(p.impl.input, defs, 0);
  p.usable.assign(p.refx.defs.size(), true);
  for (auto &e : res.errors)
    if (e.t == Theo::ParseError::MACRO_COMPILE_NON_LR) {
      int hits = 0;
      for (size_t m = 0; m < p.refx.defs.size(); m++)
        if (p.refx.defs[m].line == e.line && p.refx.defs[m].file == e.file) {
          p.usable[m] = false;
          hits++;
        }
      if (hits != 1) {  // several patterns start on that line: the error carries no column, so it cannot be attributed
        r.discard = true;
        r.cls("discard:non-LR-error-on-a-shared-line");
        return false;
      }
    }
  p.ok = true;
  return true;
}

// validates the run of apply_macros with budgets 1..maxk step by step against the reference
static void validate_run(Prepared &p, int maxk, Result &r, RunStats &st, const std::string &fam) {
  std::vector<Tok> prev = strip_eof(p.impl.input);
  for (auto &t : prev)
    if (t.k == K::ID) st.input_ids.insert(t.text);
  for (auto &d : p.refx.defs)
    for (auto &b : d.body)
      if (b.k == K::ID) st.input_ids.insert(b.text);
  for (int k = 1; k <= maxk; k++) {
    std::vector<Theo::MacroDefinition> defs = p.impl.defs;
    Theo::MacroApplicationResult res = Theo::apply_macros(p.impl.input, defs, (unsigned)k);
    if (res.transformed_sequence.empty() || res.transformed_sequence.back().t != Theo::Token::T_EOF) {
      r.fail("macro:lost-eof", "the transformed sequence does not end with the end-of-file token");
      return;
    }
    std::vector<Tok> cur = strip_eof(res.transformed_sequence);
    bool max_err = false;
    for (auto &e : res.errors)
      if (e.t == Theo::ParseError::MACRO_APPLY_REACHED_MAX_PASSES) max_err = true;
    if (prev.size() > 90) {  // the chart recogniser is O(n^4): keep the reference affordable
      st.budget_hit = true;
      return;
    }
    rm::StepResult cand = rm::candidates(p.refx.defs, p.usable, prev);
    if (!cand.any) {
      // nothing matches: the run must have stopped
      bool same = cur.size() == prev.size();
      for (size_t i = 0; same && i < cur.size(); i++)
        if (cur[i].k != prev[i].k || cur[i].text != prev[i].text) same = false;
      if (!same) {
        r.fail("macro:step-without-match", "no pattern derives any token range of [" + toks_str(prev) + "], yet rewriting produced [" + toks_str(cur) + "]");
        return;
      }
      if (max_err && (fam == "C11" || fam == "ALL")) {
        r.fail("budget:spurious-error", "rewriting finished after " + std::to_string(k - 1) + " steps with budget " + std::to_string(k) +
                                            ", yet a too-many-substitutions error was reported");
        return;
      }
      st.finished = true;
      return;
    }
    // some step is possible: the implementation must have taken one of the arg-max steps
    bool matched = false, amb = false;
    std::string why_first;
    std::map<long, std::string> temps;
    for (auto &m : cand.best) {
      rm::Applied a = rm::apply(p.refx.defs[(size_t)m.macro], m, prev);
      if (!a.ok) {
        amb = true;
        continue;
      }
      std::string why;
      std::map<long, std::string> tt;
      if (same_modulo_temps(a, cur, tt, why)) {
        matched = true;
        temps = tt;
        break;
      }
      if (why_first.empty()) why_first = why;
    }
    if (!matched && amb) {
      st.ambiguous = true;  // slot boundaries not unique for an accepted pattern: C12's business
      return;
    }
    if (!matched) {
      // diagnose: did it take a different (not arg-max) step?
      std::string diag = "not a faithful substitution (" + why_first + ")";
      const rm::Match &b = cand.best[0];
      for (auto &m : cand.all) {
        bool is_best = false;
        for (auto &bb : cand.best)
          if (bb.macro == m.macro && bb.start == m.start && bb.length == m.length) is_best = true;
        if (is_best) continue;
        rm::Applied a = rm::apply(p.refx.defs[(size_t)m.macro], m, prev);
        std::string why;
        std::map<long, std::string> tt;
        if (a.ok && same_modulo_temps(a, cur, tt, why)) {
          long pb = p.refx.defs[(size_t)b.macro].priority, pm = p.refx.defs[(size_t)m.macro].priority;
          if (pm < pb)
            diag = "applied macro #" + std::to_string(m.macro) + " (priority " + std::to_string(pm) + ") although macro #" + std::to_string(b.macro) +
                   " (priority " + std::to_string(pb) + ") matches";
          else if (m.start > b.start)
            diag = "rewrote the match starting at token " + std::to_string(m.start) + " although one starts at " + std::to_string(b.start);
          else
            diag = "rewrote a match of length " + std::to_string(m.length) + " although one of length " + std::to_string(b.length) +
                   " starts at the same token with the same priority";
          break;
        }
      }
      bool unchanged = cur.size() == prev.size();
      for (size_t i = 0; unchanged && i < cur.size(); i++)
        if (cur[i].text != prev[i].text) unchanged = false;
      if (unchanged) diag = "rewriting stopped although macro #" + std::to_string(b.macro) + " matches at token " + std::to_string(b.start);
      r.fail(unchanged ? "macro:stopped-early" : "macro:wrong-step",
             "step " + std::to_string(k) + " on [" + toks_str(prev) + "] gave [" + toks_str(cur) + "]: " + diag);
      return;
    }
    st.steps++;
    // competing candidates: different macros or different starts
    {
      std::set<std::pair<int, int>> distinct;
      for (auto &m : cand.all) distinct.insert({m.macro, m.start});
      if (distinct.size() >= 2) st.competing_steps++;
      if (cand.best.size() >= 2) st.ties++;
    }
    if (!temps.empty()) st.temp_steps++;
    st.temps_per_step.push_back(temps);
    // C10: hygiene of this step's temporaries
    if (fam == "C10" || fam == "ALL") {
      std::set<std::string> seen;
      for (auto &t : temps) {
        if (!seen.insert(t.second).second) {
          r.fail("hygiene:two-temporaries-share-a-name", "step " + std::to_string(k) + ": two different temporaries are both named '" + t.second + "'");
          return;
        }
        if (st.input_ids.count(t.second)) {
          r.fail("hygiene:clashes-with-user-identifier", "step " + std::to_string(k) + ": temporary #" + std::to_string(t.first) + " is named '" + t.second +
                                                             "', an identifier of the input");
          return;
        }
        auto lexed = ref::lex_text(t.second, "m");
        if (lexed.size() == 1 && lexed[0].k == K::ID) {
          r.fail("hygiene:user-writable-name", "step " + std::to_string(k) + ": temporary name '" + t.second + "' is an identifier a user can write");
          return;
        }
        for (size_t s0 = 0; s0 + 1 < st.temps_per_step.size(); s0++)
          for (auto &o : st.temps_per_step[s0])
            if (o.second == t.second) {
              r.fail("hygiene:shared-between-steps", "temporary name '" + t.second + "' introduced in step " + std::to_string(k) + " was already used by step " +
                                                         std::to_string(s0 + 1));
              return;
            }
      }
    }
    prev = cur;
  }
  // budget exhausted: is rewriting still possible?
  st.budget_hit = true;
}

static J case_json(const glue::Files &files, int budget) {
  J j = glue::files_json(files, "m");
  j.set("budget", budget);
  return j;
}
static glue::Files one_file(const std::string &text) { return glue::Files{{"m", text}}; }
static glue::Files files_of(const J &c) {
  glue::Files f;
  std::string main;
  glue::files_from_json(c, f, main);
  return f;
}

// ------------------------------------------------------------------------------ generator
static const char *LIT_ID[] = {"A", "B", "x"};
static const char *LIT_OP[] = {"!", "?", "+"};
static const char *LIT_KW[] = {";", ",", "DO", "END", "IF", ":=", "7", "LOOP", "THEN", "OUT", "(", ")", ":", "GOTO", "STOP"};
static const char *SLOTS[] = {"<ID>", "<INT>", "<V>", "<ARGS>", "<P>"};

struct MDef {
  int prio = -1;
  std::vector<std::string> pattern, body;
};

static std::string filler(Tape &t, const std::string &slot, int depth);
static std::string value_filler(Tape &t, int depth) {
  switch (t.weighted({4, 3, (unsigned)(depth < 2 ? 2 : 0), 1})) {
    case 0: return LIT_ID[t.pick(3)];
    case 1: return std::to_string(t.pick(10));
    case 2: {
      std::string s = "RUN f WITH " + value_filler(t, depth + 1);
      while (t.chance(1, 3)) s += " , " + value_filler(t, depth + 1);
      return s + " END";
    }
    default: return "RUN g WITH END";
  }
}
static std::string stmt_filler(Tape &t, int depth) {
  switch (t.weighted({5, 1, 1, (unsigned)(depth < 2 ? 2 : 0), 1, 1, 1})) {
    case 0: return std::string(LIT_ID[t.pick(3)]) + " := " + value_filler(t, depth + 1);
    case 1: return "GOTO l";
    case 2: return "STOP";
    case 3: return "LOOP x DO " + filler(t, "<P>", depth + 1) + " END";
    case 4: return std::string("l : ") + LIT_ID[t.pick(3)] + " := 1";
    case 5: return "WHILE x != 0 DO " + filler(t, "<P>", depth + 1) + " END";
    default: return "IF x = 1 THEN GOTO l";
  }
}
static std::string filler(Tape &t, const std::string &slot, int depth) {
  static const char *IDS[] = {"A", "B", "x", "y1", "y2", "y3", "y4", "y5"};
  if (slot == "<ID>") return IDS[t.pick(8)];
  if (slot == "<INT>") return std::to_string(t.pick(10));
  if (slot == "<V>") return value_filler(t, depth);
  if (slot == "<ARGS>") {
    std::string s = value_filler(t, depth);
    while (t.chance(1, 3)) s += " , " + value_filler(t, depth);
    return s;
  }
  std::string s = stmt_filler(t, depth);
  while (t.chance(1, 3)) s += " ; " + stmt_filler(t, depth);
  return s;
}

static std::string lit(Tape &t) {
  switch (t.weighted({4, 3, 3, 1})) {
    case 3: return t.chance(1, 2) ? "\"s\"" : "\"t\"";  // a quoted string as a literal: matches by kind only
    case 0: return LIT_ID[t.pick(2)];
    case 1: return LIT_OP[t.pick(3)];
    default: return t.chance(1, 4) ? LIT_KW[t.pick(15)] : LIT_KW[t.pick(7)];
  }
}

static std::vector<MDef> gen_defs(Tape &t, bool divergent_bias) {
  std::vector<MDef> defs;
  int n = 1 + (int)t.weighted({3, 4, 3, 1});
  static const int PR[] = {-1, 5, 5, 9};
  for (int i = 0; i < n; i++) {
    MDef d;
    d.prio = PR[t.pick(4)];
    int len = 1 + (int)t.weighted({2, 4, 4, 2, 1});
    int nslots = 0;
    if (t.chance(1, 12)) {
      // a long pattern with many single-token slots: insertion indices with two digits ($10, $11, ...)
      d.pattern.push_back(lit(t));
      int n = 11 + (int)t.pick(3);
      for (int k = 0; k < n; k++) d.pattern.push_back(t.chance(1, 3) ? "<INT>" : "<ID>");
      nslots = n;
      len = 0;
    }
    for (int k = 0; k < len; k++) {
      bool last = k == len - 1;
      bool slot = t.chance(k == 0 ? 1 : 2, 4);
      if (slot) {
        // a trailing <P>/<ARGS> is never prefix-deterministic: mostly avoid it so that most definitions are usable
        unsigned wp = last ? 1 : 4;
        d.pattern.push_back(SLOTS[t.weighted({4, 3, 4, wp, wp})]);
        nslots++;
      } else
        d.pattern.push_back(lit(t));
    }
    int blen = (int)t.weighted({1, 2, 3, 3, 2, 2, 1});
    for (int k = 0; k < blen; k++) {
      switch (t.weighted({(unsigned)(nslots ? 4 : 0), 2, 4, (unsigned)(divergent_bias ? 3 : 1)})) {
        case 0: d.body.push_back("$" + std::to_string(t.pick((unsigned)nslots))); break;
        case 1: d.body.push_back("#" + std::to_string(t.pick(2))); break;
        case 2: d.body.push_back(lit(t)); break;
        case 3: {  // reproduce (part of) a pattern: own or an earlier one -> self-reproducing / mutually recursive sets
          const MDef &src = (defs.empty() || t.chance(1, 2)) ? d : defs[t.pick((unsigned)defs.size())];
          int si = 0;
          for (auto &p : src.pattern) {
            if (p[0] == '<') {
              if (&src == &d && nslots)
                d.body.push_back("$" + std::to_string(std::min(si, nslots - 1)));
              else
                d.body.push_back(p == "<INT>" ? "1" : p == "<P>" ? "STOP" : "x");
              si++;
            } else
              d.body.push_back(p);
          }
          break;
        }
      }
    }
    defs.push_back(d);
  }
  return defs;
}

// layout: 0 = one definition per line; bit 1 = body on the line after the pattern (bit 4: only for every other
// definition, so that a pattern and the previous definition's body can share a line); bit 2 = definitions share lines
static std::string defs_text(const std::vector<MDef> &defs, unsigned layout = 0) {
  std::string s;
  for (size_t i = 0; i < defs.size(); i++) {
    const MDef &d = defs[i];
    s += "DEFINE ";
    if (d.prio >= 0) s += "PRIO " + std::to_string(d.prio) + " ";
    for (auto &p : d.pattern) s += p + " ";
    bool nl = (layout & 1) && (!(layout & 4) || (i % 2) == 0);
    s += nl ? "AS\n" : "AS ";
    for (auto &b : d.body) s += b + " ";
    s += "END DEFINE";
    s += ((layout & 2) && i + 1 < defs.size()) ? " " : "\n";
  }
  return s;
}

static std::string gen_stream(Tape &t, const std::vector<MDef> &defs) {
  std::string s;
  int chunks = 1 + (int)t.weighted({2, 4, 3, 2});
  for (int c = 0; c < chunks; c++) {
    if (t.chance(3, 4)) {
      const MDef &d = defs[t.pick((unsigned)defs.size())];
      for (auto &p : d.pattern) {
        std::string tok = p[0] == '<' ? filler(t, p, 0) : p;
        // near miss: a literal of the same kind with another text (must not match for identifiers, integers and
        // operator characters; must still match for every other kind, e.g. quoted strings)
        if (p[0] != '<' && t.chance(1, 8)) {
          if (p == "A" || p == "B" || p == "x") tok = p == "A" ? "B" : "A";
          else if (isdigit((unsigned char)p[0])) tok = p == "7" ? "8" : "7";
          else if (p == "!" || p == "?" || p == "+") tok = p == "!" ? "?" : "!";
          else if (p[0] == '"') tok = p == "\"s\"" ? "\"t\"" : "\"s\"";
        }
        s += tok + " ";
      }
    } else {
      int n = 1 + (int)t.pick(4);
      for (int i = 0; i < n; i++) s += (t.chance(1, 2) ? lit(t) : std::string(LIT_ID[t.pick(3)])) + " ";
    }
    if (t.chance(1, 3)) s += "; ";
  }
  return s;
}

// ------------------------------------------------------------------------------ C09 / C10
static void judge_run(const glue::Files &files, int maxk, Result &r, const std::string &fam) {
  r.sample = case_json(files, maxk);
  r.hash = glue::files_hash(files, "m");
  Prepared p;
  if (!prepare(files, p, r)) return;
  RunStats st;
  validate_run(p, maxk, r, st, fam);
  if (st.ambiguous) {
    r.discard = true;
    r.cls("discard:ambiguous-slot-boundaries");
    return;
  }
  size_t unusable = 0;
  for (bool u : p.usable)
    if (!u) unusable++;
  if (unusable) r.cls("has-rejected-definition");
  if (st.steps) r.cls("rewrites>=1");
  if (st.steps >= 2) r.cls("rewrites>=2");
  if (st.competing_steps) r.cls("competing-candidates");
  if (st.ties) r.cls("full-tie");
  if (st.temp_steps >= 2) r.cls("temporaries-in>=2-steps");
  if (st.finished) r.cls("run-finished");
  if (st.budget_hit) r.cls("still-rewriting-at-max-k");
  if (fam == "C10") {
    // non-trivial: >=2 steps introduce a temporary with the same n
    std::map<long, int> per_n;
    for (auto &s : st.temps_per_step)
      for (auto &t : s) per_n[t.first]++;
    bool same_n_twice = false;
    for (auto &e : per_n)
      if (e.second >= 2) same_n_twice = true;
    r.nontrivial = same_n_twice;
  } else
    r.nontrivial = st.steps >= 2 && st.competing_steps >= 1;
}

static void prop_c09(Tape &t, Result &r) {
  unsigned layout = (unsigned)t.weighted({5, 1, 1, 1});
  std::vector<MDef> defs = gen_defs(t, false);
  std::string text = defs_text(defs, layout) + gen_stream(t, defs);
  judge_run(one_file(text), env_int("VERIF_MACRO_STEPS", 6), r, "C09");
}

// exhaustive: all streams up to length L over a 5-token vocabulary for fixed macro families
static const char *FAMILIES[] = {
    // same start, different lengths, equal priority: longest wins
    "DEFINE PRIO 5 A <ID> AS B $0 END DEFINE\nDEFINE PRIO 5 A <ID> <ID> AS C END DEFINE\nDEFINE PRIO 5 A AS D END DEFINE\n",
    // priorities against position: the later, higher-priority match goes first
    "DEFINE PRIO 9 x ! AS y END DEFINE\nDEFINE PRIO 5 A <ID> AS $0 $0 END DEFINE\nDEFINE A x ! AS z END DEFINE\n",
    // text constraints on operator characters and integers
    "DEFINE <ID> ! <INT> AS $1 $0 END DEFINE\nDEFINE PRIO 5 x ! 1 AS hit END DEFINE\n",
    // temporaries and slot duplication
    "DEFINE A <V> AS #0 $0 #1 $0 #0 END DEFINE\nDEFINE PRIO 5 <ID> ; AS $0 END DEFINE\n",
};
static const char *VOCAB[] = {"A", "x", "!", "1", ";"};

static void enum_c09(Runner &run, int shard, int nshards, const std::string &tier, const std::string &fam) {
  int L = tier == "thorough" ? 6 : 5;
  unsigned long idx = 0;
  for (size_t f = 0; f < sizeof FAMILIES / sizeof *FAMILIES; f++)
    for (int len = 1; len <= L; len++) {
      unsigned long total = 1;
      for (int i = 0; i < len; i++) total *= 5;
      for (unsigned long v = 0; v < total; v++, idx++) {
        if ((long)(idx % (unsigned long)nshards) != shard) continue;
        std::string s = FAMILIES[f];
        unsigned long x = v;
        for (int i = 0; i < len; i++) {
          s += VOCAB[x % 5];
          s += " ";
          x /= 5;
        }
        Result r;
        run.journal_case(case_json(one_file(s), 5));
        judge_run(one_file(s), 5, r, fam);
        r.cls("enum:short-stream");
        run.record(r);
        if (run.stop_enumeration()) return;
      }
    }
}
// a compile with hundreds of definitions: indices beyond 8 bits, long priority bins. The fillers never match.
static void many_definitions(Runner &run, int shard, int nshards, const std::string &fam) {
  int k = 0;
  for (int fillers : {254, 257, 300})
    for (size_t f = 0; f < 2; f++, k++) {
      if (k % nshards != shard) continue;
      std::string s;
      for (int i = 0; i < fillers; i++) s += "DEFINE PRIO " + std::to_string(i % 3 ? 5 : 9) + " QF" + std::to_string(i) + " <ID> AS zz END DEFINE\n";
      s += FAMILIES[f];
      s += "A x ! A A x ; x ! 1 QF3";
      Result r;
      run.journal_case(case_json(one_file(s), 4));
      judge_run(one_file(s), 4, r, fam);
      r.cls("enum:many-definitions");
      run.record(r);
    }
}
static void enum_c09_(Runner &run, int s, int n, const std::string &tier) {
  enum_c09(run, s, n, tier, "C09");
  many_definitions(run, s, n, "C09");
}
static void json_c09(const J &c, Result &r) { judge_run(files_of(c), (int)c.at("budget").i(), r, "C09"); }
static Reg reg_c09({"C09", 300, prop_c09, enum_c09_, json_c09});

static void prop_c10(Tape &t, Result &r) {
  // bias: bodies with temporaries, streams with repeated and nested instances
  std::vector<MDef> defs = gen_defs(t, t.chance(1, 3));
  bool any_temp = false;
  for (auto &d : defs)
    for (auto &b : d.body)
      if (b[0] == '#') any_temp = true;
  if (!any_temp) defs[0].body.insert(defs[0].body.begin(), {"#0", ":=", "#1"});
  // definitions alternate between two included files, so temporaries are defined on equal line numbers
  glue::Files files;
  std::string d1, d2;
  unsigned layout = (unsigned)t.weighted({4, 2, 2, 1, 0, 0, 0, 2});  // 7 = body on next line for every other definition + shared lines
  static const char *LONGDIR =
      "a very/long/path/with some spaces/and-a-lot-of-characters/so that fixed size buffers overflow/0123456789/0123456789/0123456789/x/";
  std::string dir = t.chance(1, 5) ? LONGDIR : "";
  for (size_t i = 0; i < defs.size(); i++) (i % 2 ? d2 : d1) += defs_text({defs[i]}, layout & 1);
  bool two = t.chance(1, 2);
  if (layout) r.cls("definitions-in-free-layout");
  if (two) {
    files[dir + "d1"] = d1;
    files[dir + "d2"] = d2;
    files["m"] = "include \"" + dir + "d1\" include \"" + dir + "d2\"\n" + gen_stream(t, defs) + " ; " + gen_stream(t, defs);
    if (!dir.empty()) r.cls("definitions-in-files-with-long-names");
    r.cls("definitions-in-two-files-on-equal-lines");
  } else
    files["m"] = defs_text(defs, layout) + gen_stream(t, defs) + " ; " + gen_stream(t, defs);
  judge_run(files, env_int("VERIF_MACRO_STEPS", 6), r, "C10");
}
// long runs: hundreds of expansion steps of temporary-using macros in one apply_macros call. Every step must
// introduce names that no other step of the run uses ("different from every temporary of every other expansion
// step"), however far apart the steps are - the step-validated runs above only cover the first few steps.
static void judge_long_run(const glue::Files &files, int budget, Result &r) {
  r.sample = case_json(files, budget);
  r.hash = glue::files_hash(files, "m") ^ 0x10c0ffeeULL;
  Prepared p;
  if (!prepare(files, p, r)) return;
  std::vector<Theo::MacroDefinition> defs = p.impl.defs;
  Theo::MacroApplicationResult res = Theo::apply_macros(p.impl.input, defs, (unsigned)budget);
  for (auto &e : res.errors)
    if (e.t == Theo::ParseError::MACRO_APPLY_REACHED_MAX_PASSES) {
      r.discard = true;
      r.cls("discard:long-run-exceeds-budget");
      return;
    }
  // expected: the sources below use T exactly `uses` times and W exactly `nests` times; T introduces one
  // temporary (written twice), W two. Count the distinct names that are not user-writable identifiers.
  std::vector<Tok> out = strip_eof(res.transformed_sequence);
  std::vector<Tok> in = strip_eof(p.impl.input);
  long uses = 0;
  for (auto &t : in)
    if (t.k == K::ID && (t.text == "T")) uses += 1;
  long nests = 0;
  for (auto &t : in)
    if (t.k == K::ID && (t.text == "W")) nests += 1;
  std::map<std::string, long> temp_occ;
  for (auto &t : out) {
    if (t.k != K::ID) continue;
    auto lexed = ref::lex_text(t.text, "m");
    if (lexed.size() == 1 && lexed[0].k == K::ID) continue;  // a name a user can write: not a temporary
    temp_occ[t.text]++;
  }
  long expected_names = uses * 1 + nests * 2;
  if ((long)temp_occ.size() != expected_names) {
    r.fail("hygiene:shared-between-steps", std::to_string(uses + nests) + " expansion steps of temporary-using macros must introduce " +
                                               std::to_string(expected_names) + " distinct temporary names, the expanded stream has " +
                                               std::to_string(temp_occ.size()) + " (two steps share a name, or one step has two names for one temporary)");
    return;
  }
  for (auto &e : temp_occ)
    if (e.second != 2) {
      r.fail("hygiene:shared-between-steps", "temporary name '" + e.first + "' occurs " + std::to_string(e.second) +
                                                 " times in the expanded stream; each step writes each of its temporaries exactly twice");
      return;
    }
  r.cls("long-run:" + std::to_string(uses + nests) + "-steps");
  r.nontrivial = uses + nests >= 2;
}

static glue::Files long_run_source(int uses, int nest_every) {
  // T <ID> : one temporary, written twice.  W <P> END : two temporaries, the slot may contain T uses (nested)
  std::string s =
      "DEFINE T <ID> AS #0 := $0 ; $0 := #0 END DEFINE\n"
      "DEFINE W <P> END AS #0 := 2 ; #1 := #0 ; LOOP #1 DO $0 END END DEFINE\n";
  for (int i = 0; i < uses; i++) {
    if (i) s += " ;\n";
    if (nest_every && i % nest_every == 0)
      s += "W T a ; T b END";
    else
      s += "T x" + std::to_string(i % 7);
  }
  return glue::Files{{"m", s}};
}

static void enum_c10_(Runner &run, int s, int n, const std::string &tier) {
  enum_c09(run, s, n, tier, "C10");
  // long runs, spread over the shards
  static const int USES[] = {40, 130, 257, 300, 520, 700};
  for (size_t i = 0; i < sizeof USES / sizeof *USES; i++) {
    if ((int)(i % (size_t)n) != s) continue;
    if (tier != "thorough" && USES[i] > 320) continue;
    for (int nest : {0, 50}) {
      glue::Files f = long_run_source(USES[i], nest);
      Result r;
      run.journal_case(case_json(f, 1023));
      judge_long_run(f, 1023, r);
      r.cls("enum:long-run");
      run.record(r);
    }
  }
}
static void json_c10(const J &c, Result &r) {
  if ((int)c.at("budget").i() >= 1000)
    judge_long_run(files_of(c), (int)c.at("budget").i(), r);
  else
    judge_run(files_of(c), (int)c.at("budget").i(), r, "C10");
}
static Reg reg_c10({"C10", 300, prop_c10, enum_c10_, json_c10});

// ------------------------------------------------------------------------------ C11
static const char *STD_DEFS =
    "DEFINE PRIO 1000000 <ID> + <INT> AS RUN __INC__ WITH $0, $1 END END DEFINE\n"
    "DEFINE PRIO 1000000 <ID> - <INT> AS RUN __DEC__ WITH $0, $1 END END DEFINE\n";

static void judge_budget(const glue::Files &files, int budget, bool through_compile, Result &r) {
  r.sample = case_json(files, budget);
  r.hash = glue::files_hash(files, "m") ^ (uint64_t)budget * 0x9E3779B97F4A7C15ULL;
  Prepared p;
  if (!prepare(files, p, r)) return;
  // reference expansion for `budget` steps. It stops at full ties / ambiguous slot boundaries / streams above
  // 90 tokens; the implementation is then NOT run with the full budget: a slot-duplicating self-reproducing
  // body grows the stream exponentially in the number of passes (known finding F11), which no check can afford.
  std::vector<Tok> cur = strip_eof(p.impl.input);
  size_t in_size = cur.size(), max_size = cur.size();
  int ref_steps = 0;
  bool ref_exact = true, ref_more = false;
  const char *inexact = "";
  for (int k = 0; k < budget; k++) {
    rm::StepResult c = rm::candidates(p.refx.defs, p.usable, cur);
    if (!c.any) break;
    if (c.best.size() != 1) {
      ref_exact = false;
      inexact = "full-tie";
      break;
    }
    rm::Applied a = rm::apply(p.refx.defs[(size_t)c.best[0].macro], c.best[0], cur);
    if (!a.ok) {
      ref_exact = false;
      inexact = "ambiguous-boundaries";
      break;
    }
    cur = a.next;
    ref_steps++;
    max_size = std::max(max_size, cur.size());
    if (cur.size() > 90) {  // the chart recogniser is O(n^4): keep the reference affordable
      ref_exact = false;
      inexact = "stream>90-tokens";
      break;
    }
  }
  if (!ref_exact) {
    r.discard = true;
    r.cls(std::string("discard:reference-inexact:") + inexact);
    return;
  }
  if (ref_steps == budget) ref_more = rm::candidates(p.refx.defs, p.usable, cur).any;
  std::vector<Theo::MacroDefinition> defs = p.impl.defs;
  Theo::MacroApplicationResult res = Theo::apply_macros(p.impl.input, defs, (unsigned)budget);
  std::vector<Tok> got = strip_eof(res.transformed_sequence);
  bool max_err = false;
  for (auto &e : res.errors)
    if (e.t == Theo::ParseError::MACRO_APPLY_REACHED_MAX_PASSES) max_err = true;
  // same result as `ref_steps` reference steps (modulo temporary names): so at most `budget` steps were taken
  bool same = got.size() == cur.size();
  for (size_t i = 0; same && i < got.size(); i++)
    if (got[i].k != cur[i].k || (cur[i].text[0] != '#' && got[i].text != cur[i].text)) same = false;
  if (!same) {
    r.fail("budget:wrong-number-of-steps", "budget " + std::to_string(budget) + ": the reference performs " + std::to_string(ref_steps) +
                                               " rewriting steps and reaches [" + toks_str(cur) + "], apply_macros returned [" + toks_str(got) + "]");
    return;
  }
  if (ref_more && !max_err) {
    r.fail("budget:unfinished-without-error", "after " + std::to_string(budget) + " steps a pattern still matches, but no too-many-substitutions error was reported");
    return;
  }
  if (ref_steps < budget && max_err) {
    r.fail("budget:spurious-error", "rewriting needs only " + std::to_string(ref_steps) + " steps, budget " + std::to_string(budget) +
                                        ", yet a too-many-substitutions error was reported");
    return;
  }
  if (ref_more) r.cls("divergent-at-budget");
  if (ref_steps >= budget - 1) r.cls("needs>=budget-1");
  r.nontrivial = ref_more || ref_steps >= budget - 1;
  if (through_compile && ref_more && max_size <= in_size + 6 && budget >= 12) {
    // the compiler's fixed budget of 1024: an unfinished expansion is never passed on as a correct program.
    // Only for sets whose stream did not grow during the reference run; the run is extended progressively
    // and abandoned should the stream start to grow after all.
    bool still = true;
    for (unsigned b : {64u, 256u, 1024u}) {
      std::vector<Theo::MacroDefinition> d2 = p.impl.defs;
      Theo::MacroApplicationResult x = Theo::apply_macros(p.impl.input, d2, b);
      if (x.transformed_sequence.size() > in_size + 40) {
        still = false;
        break;
      }
      bool e = false;
      for (auto &er : x.errors)
        if (er.t == Theo::ParseError::MACRO_APPLY_REACHED_MAX_PASSES) e = true;
      if (!e) {
        still = false;
        break;
      }
    }
    if (still) {
      Theo::CodegenResult cr = Theo::compile(files, "m");
      if (cr.generated_correctly) {
        r.fail("budget:unfinished-expansion-compiled", "the expansion does not finish within 1024 steps, yet compile() marks the program correct");
        return;
      }
      bool msg = false;
      for (auto &e : cr.errors)
        if (e.message.find("too many macro substitutions") != std::string::npos) msg = true;
      if (!msg) {
        r.fail("budget:no-error-through-compile", "the expansion does not finish within 1024 steps, but compile() reports no too-many-substitutions error");
        return;
      }
      r.cls("divergent-through-compile(1024)");
    }
  }
}

static void prop_c11(Tape &t, Result &r) {
  int budget = 1 + (int)t.weighted({1, 2, 2, 2, 1, 1, 1, 1}) * (1 + (int)t.pick(8));
  if (budget > 64) budget = 64;
  bool through_compile = t.chance(1, 6);
  std::vector<MDef> defs = gen_defs(t, true);
  // the hidden standard macros are part of every compile(): with them in the text the direct run sees what compile() sees
  std::string text = (through_compile ? std::string(STD_DEFS) : std::string()) + defs_text(defs) + gen_stream(t, defs);
  judge_budget(one_file(text), budget, through_compile, r);
}
static void json_c11(const J &c, Result &r) { judge_budget(files_of(c), (int)c.at("budget").i(), true, r); }

// fixed divergent sets whose stream does not grow, each also sent through compile() with its 1024 passes:
// "an unfinished expansion is never passed on as a correct program" must hold in particular when every
// intermediate stream is itself a valid program (then only the too-many-substitutions error stands between
// the unfinished expansion and a "correct" result)
static const char *DIVERGENT[] = {
    "DEFINE x1 := 0 AS x1 := 0 END DEFINE\nx1 := 0",
    "DEFINE STOP AS STOP END DEFINE\nx0 := 1; STOP",
    "DEFINE <ID> := 1 AS $0 := 1 END DEFINE\nx0 := 1",
    "DEFINE PRIO 3 A <ID> AS B $0 END DEFINE\nDEFINE PRIO 3 B <ID> AS A $0 END DEFINE\nA x",
    "DEFINE PRIO 9 x0 := 7 AS x0 := 8 END DEFINE\nDEFINE PRIO 5 GOTO <ID> AS GOTO $0 END DEFINE\nl: x0 := 7; GOTO l",
    "DEFINE LOOP <ID> DO AS LOOP $0 DO END DEFINE\nx0 := 2; LOOP x0 DO x1 := x1 + 1 END",
};
static void enum_c11(Runner &run, int shard, int nshards, const std::string &) {
  size_t n = sizeof DIVERGENT / sizeof *DIVERGENT;
  for (size_t i = 0; i < n; i++)
    for (int budget : {12, 31}) {
      if ((int)((i * 2 + (budget == 31)) % (size_t)nshards) != shard) continue;
      glue::Files f = one_file(std::string(STD_DEFS) + DIVERGENT[i]);
      run.journal_case(case_json(f, budget));
      Result r;
      judge_budget(f, budget, true, r);
      r.cls("enum:fixed-divergent-set");
      run.record(r);
    }
}
static Reg reg_c11({"C11", 300, prop_c11, enum_c11, json_c11});

// ------------------------------------------------------------------------------ C12
static const char *P12[] = {"<ID>", "<INT>", "<V>", "<ARGS>", "<P>", ";", ",", "A", "7", "!", "END", "DO", ":="};

struct Verdicts {
  std::vector<bool> impl_rejected, ref_conflict;
  std::vector<int> err_line;
};

// one apply_macros call decides a batch of definitions (one per line)
static void verdicts_for(const std::vector<std::string> &patterns, Verdicts &v, Result &r) {
  std::string text;
  for (auto &p : patterns) text += "DEFINE " + p + " AS z END DEFINE\n";
  text += "q := 1";
  ImplSide impl = impl_prepare(one_file(text));
  rm::Extracted refx = rm::extract(ref::lex_text(text, "m"));
  v.impl_rejected.assign(patterns.size(), false);
  v.ref_conflict.assign(patterns.size(), false);
  if (impl.defs.size() != patterns.size() || refx.defs.size() != patterns.size()) {
    r.harness_error = true;
    r.msg = "pattern batch was not extracted one definition per line";
    return;
  }
  std::vector<Theo::MacroDefinition> defs = impl.defs;
  Theo::MacroApplicationResult res = Theo::apply_macros(impl.input, defs, 0);
  for (auto &e : res.errors)
    if (e.t == Theo::ParseError::MACRO_COMPILE_NON_LR) {
      if (e.file != "m" || e.line < 1 || e.line > (int)patterns.size()) {
        r.fail("nonlr:error-position", "a non-linear-macro error is positioned at " + e.file + ":" + std::to_string(e.line) + ", not at a definition");
        return;
      }
      v.impl_rejected[(size_t)e.line - 1] = true;
    }
  for (size_t i = 0; i < patterns.size(); i++) {
    rlr::Result lr = rlr::analyse(rm::grammar_for(refx.defs[i], false), rm::nMACRO, (int)K::T_EOF, 38, true);
    v.ref_conflict[i] = lr.conflict;
  }
}

static void judge_patterns(const std::vector<std::string> &patterns, Result &r, bool sample_all) {
  Verdicts v;
  verdicts_for(patterns, v, r);
  if (!r.ok || r.harness_error) return;
  for (size_t i = 0; i < patterns.size(); i++) {
    if (v.impl_rejected[i] != v.ref_conflict[i]) {
      // keep the whole batch: one apply_macros call judged it, and the verdict on one pattern must not depend on
      // the other definitions of the call - if it does, only the batch reproduces the failure
      J j = J::obj();
      J a = J::arr();
      for (auto &pp : patterns) a.push(pp);
      j.set("patterns", a);
      j.set("failing_pattern", patterns[i]);
      r.sample = j;
      r.fail(v.impl_rejected[i] ? "nonlr:deterministic-pattern-rejected" : "nonlr:ambiguous-pattern-accepted",
             "pattern [" + patterns[i] + "]: " +
                 (v.impl_rejected[i] ? "reported as non-linear, but the reference LR(1) prefix analysis finds no conflict"
                                     : "accepted, but the reference LR(1) prefix analysis finds a conflict (not recognisable on a prefix with one token of lookahead)"));
      return;
    }
  }
  (void)sample_all;
}

static void enum_c12(Runner &run, int shard, int nshards, const std::string &tier) {
  int L = tier == "thorough" ? 4 : 3;
  const int S = 13, BATCH = 120;  // one apply_macros call judges a whole batch: patterns must not influence one another
  std::vector<std::string> batch;
  unsigned long idx = 0, batchno = 0;
  auto flush = [&]() {
    if (batch.empty()) return;
    if ((long)(batchno++ % (unsigned long)nshards) == shard) {
      J j = J::obj();
      J a = J::arr();
      for (auto &p : batch) a.push(p);
      j.set("patterns", a);
      run.journal_case(j);
      // one Result per pattern so that the counts are per pattern
      Result r;
      judge_patterns(batch, r, false);
      if (!r.ok || r.harness_error) {
        run.record(r);
      } else {
        for (auto &p : batch) {
          Result rp;
          rp.hash = fnv1a(p);
          bool slot3 = p.find("<V>") != std::string::npos || p.find("<ARGS>") != std::string::npos || p.find("<P>") != std::string::npos;
          rp.nontrivial = slot3;
          if ((rp.hash % 997) == 0) {
            J j2 = J::obj();
            j2.set("pattern", p);
            rp.sample = j2;
          }
          rp.cls("enum:pattern");
          run.record(rp);
        }
      }
    }
    batch.clear();
  };
  for (int len = 1; len <= L; len++) {
    unsigned long total = 1;
    for (int i = 0; i < len; i++) total *= S;
    for (unsigned long v = 0; v < total; v++, idx++) {
      std::string p;
      unsigned long x = v;
      for (int i = 0; i < len; i++) {
        p += std::string(i ? " " : "") + P12[x % S];
        x /= S;
      }
      batch.push_back(p);
      if ((int)batch.size() == BATCH) flush();
      if (run.stop_enumeration()) return;
    }
  }
  flush();
}

// random longer patterns + the semantic cross-checks that do not depend on the reference LR(1)
static void prop_c12(Tape &t, Result &r) {
  int len = 1 + (int)t.pick(8);
  std::vector<std::string> syms;
  for (int i = 0; i < len; i++) syms.push_back(t.chance(2, 5) ? SLOTS[t.pick(5)] : (t.chance(1, 2) ? lit(t) : std::string(P12[5 + t.pick(8)])));
  std::string pat;
  for (auto &s : syms) pat += s + " ";
  J j = J::obj();
  j.set("pattern", pat);
  r.sample = j;
  r.hash = fnv1a(pat);
  // the last entry repeats an earlier definition literally (a macro file included twice): it is reported again
  std::vector<std::string> batch = {pat, pat + "<P>", pat + "<ARGS>", pat + "<P> ;", pat + "<ARGS> ,", pat + "<P>"};
  Verdicts v;
  verdicts_for(batch, v, r);
  if (!r.ok || r.harness_error) return;
  for (size_t i = 0; i < batch.size(); i++)
    if (v.impl_rejected[i] != v.ref_conflict[i]) {
      r.fail(v.impl_rejected[i] ? "nonlr:deterministic-pattern-rejected" : "nonlr:ambiguous-pattern-accepted",
             "pattern [" + batch[i] + "] is " + (v.impl_rejected[i] ? "rejected" : "accepted") + " but the reference LR(1) prefix analysis says " +
                 (v.ref_conflict[i] ? "conflict" : "no conflict"));
      return;
    }
  // (b) the property's own examples: trailing <P>/<ARGS>, ';' after <P>, ',' after <ARGS> are never accepted
  for (size_t i = 1; i < batch.size(); i++)
    if (!v.impl_rejected[i]) {
      r.fail("nonlr:open-ended-pattern-accepted", "pattern [" + batch[i] + "] was accepted although it ends in / continues a statement or argument list slot");
      return;
    }
  // (a)+(c): an accepted pattern matches with one length per start and one derivation; a rejected one is never applied
  MDef d;
  d.pattern = syms;
  d.body = {"hit"};
  std::string stream;
  for (auto &p : syms) stream += (p[0] == '<' ? filler(t, p, 0) : p) + " ";
  stream += "; " + stream;
  std::string text = "DEFINE " + pat + "AS hit END DEFINE\n" + stream;
  Prepared p;
  if (!prepare(one_file(text), p, r)) return;
  std::vector<Tok> in = strip_eof(p.impl.input);
  std::vector<rm::Match> ms;
  rm::matches_of(p.refx.defs[0], 0, in, ms);
  std::vector<Theo::MacroDefinition> defs = p.impl.defs;
  Theo::MacroApplicationResult res = Theo::apply_macros(p.impl.input, defs, 3);
  std::vector<Tok> out = strip_eof(res.transformed_sequence);
  if (v.impl_rejected[0]) {
    r.cls("rejected");
    bool same = out.size() == in.size();
    for (size_t i = 0; same && i < out.size(); i++)
      if (out[i].text != in[i].text) same = false;
    if (!same) {
      r.fail("nonlr:rejected-macro-applied", "pattern [" + pat + "] was reported as non-linear but was applied anyway");
      return;
    }
    // a rejected macro never prevents the others from being applied
    std::string text2 = "DEFINE " + pat + "AS hit END DEFINE\nDEFINE PRIO 3 Q <ID> AS $0 END DEFINE\nQ x " + stream;
    Prepared p2;
    if (prepare(one_file(text2), p2, r)) {
      std::vector<Theo::MacroDefinition> d2 = p2.impl.defs;
      Theo::MacroApplicationResult r2 = Theo::apply_macros(p2.impl.input, d2, 1);
      std::vector<Tok> o2 = strip_eof(r2.transformed_sequence);
      if (o2.empty() || o2[0].text != "x" || o2.size() + 1 != strip_eof(p2.impl.input).size()) {
        r.fail("nonlr:rejected-macro-blocks-others", "with the rejected pattern [" + pat + "] defined, the other macro 'Q <ID>' was not applied");
        return;
      }
    }
  } else {
    r.cls("accepted");
    std::map<int, std::set<int>> lens;
    for (auto &m : ms) {
      lens[m.start].insert(m.length);
      if (m.ambiguous_derivation) {
        r.fail("nonlr:accepted-pattern-ambiguous-derivation", "accepted pattern [" + pat + "] matches [" + toks_str(in) + "] at token " + std::to_string(m.start) +
                                                                  " with two different derivations (slot boundaries not unique)");
        return;
      }
    }
    for (auto &e : lens)
      if (e.second.size() >= 2) {
        r.fail("nonlr:accepted-pattern-two-lengths", "accepted pattern [" + pat + "] matches [" + toks_str(in) + "] at token " + std::to_string(e.first) +
                                                         " with two different lengths");
        return;
      }
    if (!ms.empty()) r.cls("accepted-and-matching");
  }
  bool slot3 = pat.find("<V>") != std::string::npos || pat.find("<ARGS>") != std::string::npos || pat.find("<P>") != std::string::npos;
  r.nontrivial = slot3;
}
static void json_c12(const J &c, Result &r) {
  std::vector<std::string> ps;
  if (c.has("patterns"))
    for (auto &e : c.at("patterns").a) ps.push_back(e.s);
  if (c.has("pattern")) ps.push_back(c.at("pattern").s);
  r.sample = c;
  judge_patterns(ps, r, true);
}
static Reg reg_c12({"C12", 120, prop_c12, enum_c12, json_c12});

VERIF_MAIN
