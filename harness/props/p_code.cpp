// p_code: C03 (emitted bytecode is well formed) and C08 (breakpoint tables consistent).
#include "../common/gen_mut.hpp"
#include "../common/gen_program.hpp"
#include "../common/harness.hpp"
#include "../ref/ref_accept.hpp"
#include <ostream>
#include <streambuf>

#include "glue.hpp"

using namespace verif;
using Theo::OpCode;

// ---------------------------------------------------------------------------- static verifier
// Written from the instruction documentation in VM/include/instr.hpp and the property text.
struct Verifier {
  const Theo::Program &P;
  std::string why;
  std::map<int, int> entry_end;    // routine entry -> index of its RET
  std::map<int, int> entry_count;  // routine entry -> frame size (from the PREPAREs that call it)
  std::map<int, int> entry_smi;
  std::set<int> uncalled;          // entries of routines no EXEC enters (frame size unknown)
  explicit Verifier(const Theo::Program &P) : P(P) {}

  bool fail(const std::string &m) {
    if (why.empty()) why = m;
    return false;
  }
  int routine_of(int idx) const {  // entry, or -1 for the root
    for (auto &e : entry_end)
      if (idx >= e.first && idx <= e.second) return e.first;
    return -1;
  }
  bool run() {
    const auto &c = P.code;
    int n = (int)c.size();
    if (n < 2) return fail("program has fewer than two instructions");
    if (c[0].op != OpCode::PREPARE_EXEC) return fail("instruction 0 is not the PREPARE of the root frame");
    if (c[(size_t)n - 1].op != OpCode::HALT) return fail("last instruction is not HALT");
    int root_count = c[0].parameters.prepare.count, root_smi = c[0].parameters.prepare.index;
    if (root_count < 0) return fail("root frame size is negative");
    if (root_smi < 0 || root_smi >= (int)P.stack_maps.size()) return fail("root stack-map index out of range");
    // routine extents
    for (int i = 0; i < n; i++)
      if (c[(size_t)i].op == OpCode::EXEC) {
        int e = c[(size_t)i].parameters.exec.entry;
        if (e <= 0 || e >= n) return fail("EXEC at " + std::to_string(i) + " enters " + std::to_string(e) + ", outside the code");
        if (!entry_end.count(e)) {
          int end = e;
          while (end < n && c[(size_t)end].op != OpCode::RET) end++;
          if (end >= n) return fail("routine entered at " + std::to_string(e) + " has no RET");
          entry_end[e] = end;
        }
      }
    // routines that are defined but never called have no EXEC entry: they are the code a forward
    // JMP skips ("JMP after; body; RET; after:"). Their frame size is unknown (no PREPARE names it).
    for (int q = 0; q < n; q++) {
      if (c[(size_t)q].op != OpCode::RET) continue;
      bool covered = false;
      for (auto &e : entry_end)
        if (q >= e.first && q <= e.second) covered = true;
      if (covered) continue;
      int start = -1;
      for (int p = q - 1; p >= 0; p--) {
        if (c[(size_t)p].op == OpCode::RET) break;
        if (c[(size_t)p].op == OpCode::JMP && p + c[(size_t)p].parameters.jmp.offset == q + 1) {
          start = p + 1;
          break;
        }
      }
      if (start < 0 || start > q) return fail("RET at " + std::to_string(q) + " belongs to no routine (neither called nor skipped by a jump)");
      entry_end[start] = q;
      uncalled.insert(start);
    }
    {
      int prev_end = 0;
      for (auto &e : entry_end) {
        if (e.first <= prev_end) return fail("routine extents overlap at " + std::to_string(e.first));
        prev_end = e.second;
        // no fall-through into a routine: the instruction before the entry must not continue into it
        OpCode before = c[(size_t)e.first - 1].op;
        if (!(before == OpCode::JMP || before == OpCode::RET || before == OpCode::HALT))
          return fail("execution can fall through into the routine at " + std::to_string(e.first));
      }
    }
    // call sequences: PREPARE ARG* EXEC, straight line
    std::set<int> inside_call_seq;  // indices of ARG/EXEC instructions (no jump may land there)
    for (int i = 1; i < n; i++) {
      if (c[(size_t)i].op != OpCode::PREPARE_EXEC) continue;
      int cnt = c[(size_t)i].parameters.prepare.count, smi = c[(size_t)i].parameters.prepare.index;
      if (cnt < 0) return fail("PREPARE at " + std::to_string(i) + " has a negative frame size");
      if (smi < 0 || smi >= (int)P.stack_maps.size()) return fail("PREPARE at " + std::to_string(i) + " has stack-map index " + std::to_string(smi));
      int j = i + 1, nargs = 0;
      std::set<int> seen_targets;  // each parameter filled once, in any order
      while (j < n && c[(size_t)j].op == OpCode::ARG) {
        int tgt = c[(size_t)j].parameters.arg.target;
        if (tgt < 0 || tgt >= cnt)
          return fail("ARG at " + std::to_string(j) + " writes register " + std::to_string(tgt) + " of a callee frame of size " + std::to_string(cnt));
        if (!seen_targets.insert(tgt).second) return fail("ARG at " + std::to_string(j) + " fills parameter " + std::to_string(tgt) + " a second time");
        inside_call_seq.insert(j);
        nargs++;
        j++;
      }
      if (j >= n || c[(size_t)j].op != OpCode::EXEC) return fail("PREPARE at " + std::to_string(i) + " is not followed by ARG* EXEC");
      inside_call_seq.insert(j);
      int e = c[(size_t)j].parameters.exec.entry;
      if (entry_count.count(e)) {
        if (entry_count[e] != cnt || entry_smi[e] != smi)
          return fail("PREPAREs for the routine at " + std::to_string(e) + " disagree on frame size / stack map");
      } else {
        entry_count[e] = cnt;
        entry_smi[e] = smi;
      }
      if (nargs > cnt) return fail("call at " + std::to_string(i) + " passes more arguments than the callee frame holds");
    }
    for (int i = 0; i < n; i++) {
      OpCode op = c[(size_t)i].op;
      if ((op == OpCode::ARG || op == OpCode::EXEC) && !inside_call_seq.count(i))
        return fail(std::string(op == OpCode::ARG ? "ARG" : "EXEC") + " at " + std::to_string(i) + " without a preceding PREPARE");
    }
    // per-instruction operand checks
    for (int i = 0; i < n; i++) {
      const Theo::Instruction &in = c[(size_t)i];
      int r = routine_of(i);
      int F = r < 0 ? root_count : (entry_count.count(r) ? entry_count[r] : -1);
      bool unknownF = r >= 0 && uncalled.count(r);
      auto reg = [&](int x, const char *what) {
        if (unknownF && x >= 0) return true;
        if (x < 0 || x >= F)
          return fail(std::string(what) + " at " + std::to_string(i) + " addresses register " + std::to_string(x) + " of a frame of size " +
                      std::to_string(F) + (r < 0 ? " (root)" : " (routine at " + std::to_string(r) + ")"));
        return true;
      };
      auto jump = [&](int off) {
        int tgt = i + off;
        if (tgt < 0 || tgt >= n) return fail("jump at " + std::to_string(i) + " leaves the code (target " + std::to_string(tgt) + ")");
        if (routine_of(tgt) != r) return fail("jump at " + std::to_string(i) + " leaves its routine (target " + std::to_string(tgt) + ")");
        if (inside_call_seq.count(tgt)) return fail("jump at " + std::to_string(i) + " lands inside a call sequence");
        return true;
      };
      switch (in.op) {
        case OpCode::ADD_CONST:
          if (!reg(in.parameters.add.target, "ADD target") || !reg(in.parameters.add.source, "ADD source")) return false;
          break;
        case OpCode::TEST:
          if (!reg(in.parameters.test.target, "TEST target") || !reg(in.parameters.test.op1, "TEST operand") ||
              !reg(in.parameters.test.op2, "TEST operand"))
            return false;
          break;
        case OpCode::CONST:
          if (!reg(in.parameters.constant.target, "CONST target")) return false;
          if (in.parameters.constant.constant < 0) return fail("CONST at " + std::to_string(i) + " loads a negative value");
          break;
        case OpCode::JMP:
          if (!jump(in.parameters.jmp.offset)) return false;
          break;
        case OpCode::JMPC:
          if (!reg(in.parameters.jmpc.source, "JMPC source") || !jump(in.parameters.jmpc.offset)) return false;
          break;
        case OpCode::PREPARE_EXEC:
          if (i > 0 && !reg(in.parameters.prepare.target, "PREPARE return target")) return false;
          break;
        case OpCode::ARG:
          if (!reg(in.parameters.arg.source, "ARG source")) return false;
          break;
        case OpCode::RET:
          if (r < 0) return fail("RET at " + std::to_string(i) + " in the root routine");
          if (!reg(in.parameters.ret.source, "RET source")) return false;
          break;
        case OpCode::BREAK: return fail("BREAK instruction in compiler output at " + std::to_string(i));
        default: break;
      }
    }
    // stack maps: keys inside the frame
    auto map_ok = [&](int smi, int cnt, const std::string &who) {
      for (auto &e : P.stack_maps[(size_t)smi].map)
        if (e.first < 0 || e.first >= cnt)
          return fail("stack map of " + who + " names register " + std::to_string(e.first) + " outside its frame of size " + std::to_string(cnt));
      return true;
    };
    if (!map_ok(root_smi, root_count, "the root")) return false;
    for (auto &e : entry_count)
      if (!map_ok(entry_smi[e.first], e.second, "routine at " + std::to_string(e.first))) return false;
    return true;
  }
};

// dynamic cross-check: validate the operands of the next instruction against the live frames
static bool monitor_step(Theo::VM &vm, std::string &why) {
  const Theo::Program &P = vm.verif_code();
  int ip = vm.verif_ip();
  if (ip < 0 || ip >= (int)P.code.size()) {
    why = "instruction pointer " + std::to_string(ip) + " outside the code";
    return false;
  }
  auto fr = vm.verif_frames();
  long dsz = (long)vm.verif_data().size();
  const Theo::Instruction &in = P.code[(size_t)ip];
  auto cur = [&](int reg, const char *what) {
    if (fr.empty()) {
      why = std::string(what) + " without a frame";
      return false;
    }
    if (reg < 0 || reg >= fr.back().seg_size || fr.back().data_start + reg >= dsz) {
      why = std::string(what) + " at " + std::to_string(ip) + ": register " + std::to_string(reg) + " outside the current frame (size " +
            std::to_string(fr.back().seg_size) + ")";
      return false;
    }
    return true;
  };
  auto caller = [&](int reg, const char *what) {
    if (fr.size() < 2) {
      why = std::string(what) + " at " + std::to_string(ip) + " without a caller frame";
      return false;
    }
    const auto &f = fr[fr.size() - 2];
    if (reg < 0 || reg >= f.seg_size) {
      why = std::string(what) + " at " + std::to_string(ip) + ": register " + std::to_string(reg) + " outside the caller frame (size " +
            std::to_string(f.seg_size) + ")";
      return false;
    }
    return true;
  };
  switch (in.op) {
    case OpCode::ADD_CONST: return cur(in.parameters.add.target, "ADD") && cur(in.parameters.add.source, "ADD");
    case OpCode::TEST:
      return cur(in.parameters.test.target, "TEST") && cur(in.parameters.test.op1, "TEST") && cur(in.parameters.test.op2, "TEST");
    case OpCode::CONST: return cur(in.parameters.constant.target, "CONST");
    case OpCode::JMPC: return cur(in.parameters.jmpc.source, "JMPC");
    case OpCode::ARG: return cur(in.parameters.arg.target, "ARG target") && caller(in.parameters.arg.source, "ARG source");
    case OpCode::RET: {
      if (!cur(in.parameters.ret.source, "RET")) return false;
      return caller(fr.back().ret_target, "RET target");
    }
    case OpCode::PREPARE_EXEC:
      if (in.parameters.prepare.index < 0 || in.parameters.prepare.index >= (int)P.stack_maps.size()) {
        why = "PREPARE with stack-map index out of range";
        return false;
      }
      return true;
    default: return true;
  }
}

static void judge_c03(const glue::Files &files, const std::string &main, const gp::Program *ast, Result &r) {
  r.sample = glue::files_json(files, main);
  r.hash = glue::files_hash(files, main);
  if (!ast && glue::explosive_expansion(files, main)) {  // mutated macro definitions can reproduce themselves (see glue.hpp)
    r.discard = true;
    r.cls("skipped:divergent-growing-expansion");
    return;
  }
  Theo::CodegenResult cr = Theo::compile(files, main);
  if (!cr.generated_correctly) {
    r.discard = true;
    r.cls("rejected-by-compiler");
    return;
  }
  Verifier v(cr.code);
  if (!v.run()) {
    r.fail("code:malformed", v.why);
    return;
  }
  // every call passes as many ARGs as a definition of the called name (stack-map func_name) has parameters;
  // the parameter counts come from the generator's AST or, for mutants, from the reference parse of the source
  {
    std::map<std::string, std::set<size_t>> ar;
    if (ast)
      for (auto &d : ast->defs) ar[d.name].insert(d.params.size());
    else
      ar = ra::judge_source(files, main).arities;
    const auto &c = cr.code.code;
    for (int i = 1; i < (int)c.size(); i++) {
      if (c[(size_t)i].op != OpCode::PREPARE_EXEC) continue;
      size_t nargs = 0;
      for (int j = i + 1; c[(size_t)j].op == OpCode::ARG; j++) nargs++;
      const std::string &fname = cr.code.stack_maps[(size_t)c[(size_t)i].parameters.prepare.index].func_name;
      auto it = ar.find(fname);
      if (it == ar.end()) {
        if (ast) {
          r.fail("code:arg-count", "call at " + std::to_string(i) + " enters a routine whose stack map is named '" + fname + "', which is no defined program");
          return;
        }
        continue;  // mutant whose definitions the reference parse could not see
      }
      if (!it->second.count(nargs)) {
        r.fail("code:arg-count", "call at " + std::to_string(i) + " to '" + fname + "' passes " + std::to_string(nargs) +
                                     " arguments; no definition of that name has that many parameters");
        return;
      }
    }
  }
  // dynamic cross-check of the static verdict
  Theo::VM vm(cr.code);
  std::string why;
  long steps = 0;
  for (; steps < 20000 && !vm.isDone(); steps++) {
    if (!monitor_step(vm, why)) {
      r.fail("code:out-of-frame-access", "statically well formed, but at run time: " + why);
      return;
    }
    vm.executeSingle();
  }
  bool has_call = false;
  for (auto &in : cr.code.code)
    if (in.op == OpCode::EXEC) has_call = true;
  if (has_call) r.cls("has-call");
  r.nontrivial = has_call;
}

static void prop_c03(Tape &t, Result &r) {
  int nfiles = 1 + (int)t.weighted({5, 3, 1});
  bool dup = t.chance(1, 4);
  bool mutate = t.chance(2, 5);
  int nedits = 1 + (int)t.weighted({4, 3, 2});
  std::vector<uint8_t> lbytes = derive_bytes(t.u32(), 4096), ebytes = derive_bytes(t.u32() ^ 0x3c6ef372u, 256);
  Tape lt(lbytes), et(ebytes);
  gp::GenCfg cfg;
  cfg.user_macros = t.chance(1, 3);
  cfg.dup_params = dup && !excluded("code:dup-params");
  cfg.wide_frame = !cfg.user_macros && !mutate && t.chance(1, 10);
  gp::Gen g(t, cfg);
  gp::Program p = g.generate();
  gp::normalise(p);
  gp::Layout L = gp::layout_free(p, lt, mutate ? 1 : nfiles);
  if (L.blank_includes) r.cls("layout:include-of-a-file-without-tokens");
  if (L.body_includes) r.cls("layout:include-inside-a-macro-body");
  if (L.main.rfind("__", 0) == 0) r.cls("layout:file-names-starting-with-__");
  if (L.main.rfind("Cc/", 0) == 0) r.cls("layout:file-names-differing-in-case-only");
  bool has_dup = false;
  for (auto &d : p.defs) {
    std::set<std::string> s(d.params.begin(), d.params.end());
    if (s.size() != d.params.size()) has_dup = true;
    if (d.params.empty()) r.cls("decl:no-parameters");
    if (d.has_out && std::count(d.params.begin(), d.params.end(), d.out)) r.cls("decl:out-is-parameter");
  }
  if (has_dup) r.cls("decl:repeated-parameter-name");
  for (auto &c : g.classes)
    if (c == "redefined-program-name") r.cls("decl:redefined-name");
  if (mutate) {
    // whatever the compiler accepts must be well formed - also sources no generator of valid programs writes
    // (surplus / missing arguments, renamed callees and labels, swapped tokens)
    glue::Files files = L.files;
    std::vector<std::string> toks = gm::texts_of(files[L.main]);
    for (int i = 0; i < nedits; i++) {
      gm::Edit e = gm::random_edit(et, toks, false);
      // bias towards argument lists: duplicate or drop an argument
      if (et.chance(1, 3)) {
        std::vector<size_t> commas;
        for (size_t k = 0; k < toks.size(); k++)
          if (toks[k] == "," || toks[k] == "WITH" || toks[k] == "with" || toks[k] == "With") commas.push_back(k);
        if (!commas.empty()) {
          size_t at = commas[et.pick((unsigned)commas.size())];
          if (et.chance(1, 2)) {
            toks.insert(toks.begin() + (long)at + 1, {"7", ","});
            if (toks[at] != ",") std::swap(toks[at + 1], toks[at + 1]);
          } else {
            toks.insert(toks.begin() + (long)at, {",", "x0"});
            if (toks[at + 2] != ",") {  // inserted before WITH: move behind it
              toks.erase(toks.begin() + (long)at, toks.begin() + (long)at + 2);
              toks.insert(toks.begin() + (long)at + 1, {"x0", ","});
            }
          }
          continue;
        }
      }
      gm::apply_edit(toks, e);
    }
    files[L.main] = gm::join(toks, 1 + et.pick(9));
    r.cls("gen:mutant");
    judge_c03(files, L.main, nullptr, r);
    if (!r.discard) r.cls("mutant-accepted-by-compiler");
    return;
  }
  judge_c03(L.files, L.main, &p, r);
}
static void json_c03(const J &c, Result &r) {
  glue::Files files;
  std::string main;
  glue::files_from_json(c, files, main);
  judge_c03(files, main, nullptr, r);
}
static Reg reg_c03({"C03", 500, prop_c03, nullptr, json_c03});

// ---------------------------------------------------------------------------- C08
struct NullBuf : std::streambuf {
  int overflow(int c) override { return c; }
};

static void judge_c08(const glue::Files &files, const std::string &main, Result &r) {
  r.sample = glue::files_json(files, main);
  r.hash = glue::files_hash(files, main);
  Theo::CodegenResult cr = Theo::compile(files, main);
  if (!cr.generated_correctly) {
    r.discard = true;
    r.cls("rejected-by-compiler");
    return;
  }
  // the tables are judged on the program as a user holds it; listing it (the CLI's 'o' command) is a read-only
  // operation and must leave both tables as they were - every other case out of four looks at the program
  // after a listing
  if ((r.hash & 3) == 0) {
    size_t li = cr.code.line_info.size(), pb = cr.code.potential_breaks.size();
    NullBuf nb;
    std::ostream os(&nb);
    cr.code.disassemble(os);
    r.cls("after-disassemble");
    if (cr.code.line_info.size() != li || cr.code.potential_breaks.size() != pb) {
      r.fail("bp:listing-changes-tables", "Program::disassemble changed the breakpoint tables: line_info " + std::to_string(li) + " -> " +
                                              std::to_string(cr.code.line_info.size()) + " entries, potential_breaks " + std::to_string(pb) + " -> " +
                                              std::to_string(cr.code.potential_breaks.size()));
      return;
    }
  }
  const Theo::Program &P = cr.code;
  auto loc = [](const Theo::BreakPoint &b) { return b.file + ":" + std::to_string(b.line); };
  // exact inverses
  size_t sites = 0;
  bool multi = false;
  for (auto &e : P.potential_breaks) {
    if (e.second.empty()) {
      r.fail("bp:empty-location", "location " + loc(e.first) + " is listed with no site");
      return;
    }
    std::set<int> seen;
    for (int idx : e.second) {
      if (!seen.insert(idx).second) {
        r.fail("bp:duplicate-site", "location " + loc(e.first) + " lists site " + std::to_string(idx) + " twice");
        return;
      }
      auto it = P.line_info.find(idx);
      if (it == P.line_info.end() || it->second.file != e.first.file || it->second.line != e.first.line) {
        r.fail("bp:tables-not-inverse", "location " + loc(e.first) + " lists site " + std::to_string(idx) + ", but the site table maps it to " +
                                            (it == P.line_info.end() ? std::string("nothing") : loc(it->second)));
        return;
      }
      sites++;
    }
    if (e.second.size() >= 2) multi = true;
  }
  for (auto &e : P.line_info) {
    auto it = P.potential_breaks.find(e.second);
    if (it == P.potential_breaks.end() || std::find(it->second.begin(), it->second.end(), e.first) == it->second.end()) {
      r.fail("bp:tables-not-inverse", "site " + std::to_string(e.first) + " is mapped to " + loc(e.second) +
                                          ", but that location does not list it" + (it == P.potential_breaks.end() ? " (location absent)" : ""));
      return;
    }
  }
  // every listed site is a breakpoint instruction and vice versa
  for (int i = 0; i < (int)P.code.size(); i++) {
    bool is_bp = P.code[(size_t)i].op == OpCode::POTENTIAL_BREAK || P.code[(size_t)i].op == OpCode::BREAK;
    bool listed = P.line_info.count(i) > 0;
    if (is_bp != listed) {
      r.fail(is_bp ? "bp:unlisted-site" : "bp:listed-non-site",
             "instruction " + std::to_string(i) + (is_bp ? " is a breakpoint instruction that no table lists" : " is listed as a site but is no breakpoint instruction"));
      return;
    }
  }
  // locations name real lines: a supplied file, not the hidden one, a token of the text ends on the line
  std::map<std::string, std::set<int>> token_lines;
  for (auto &f : files) {
    auto toks = ref::lex_text(f.second, f.first);
    for (size_t i = 0; i < toks.size(); i++) {
      if (toks[i].k == ref::K::INCLUDE) {
        if (i + 1 < toks.size() && toks[i + 1].k == ref::K::FNAME) i++;
        continue;
      }
      token_lines[f.first].insert(toks[i].line);
    }
  }
  for (auto &e : P.potential_breaks) {
    if (e.first.file == "__standards__") {
      r.fail("bp:hidden-file-location", "available location " + loc(e.first) + " names the hidden standard-macro file");
      return;
    }
    if (!files.count(e.first.file)) {
      r.fail("bp:unknown-file", "available location " + loc(e.first) + " names a file that was not supplied");
      return;
    }
    if (!token_lines[e.first.file].count(e.first.line)) {
      r.fail("bp:line-without-token", "available location " + loc(e.first) + ": no token of the program text stands on that line");
      return;
    }
  }
  // "listed as available" is Program::getAvailableBreakpoints(): exactly the locations of the location table
  {
    std::set<Theo::BreakPoint> av = cr.code.getAvailableBreakpoints();
    std::set<std::string> a, b;
    for (auto &x : av) a.insert(loc(x));
    for (auto &e : P.potential_breaks) b.insert(loc(e.first));
    if (a != b) {
      r.fail("bp:available-list", "getAvailableBreakpoints() lists " + std::to_string(a.size()) + " locations, the location table has " + std::to_string(b.size()) +
                                      " (or they differ)");
      return;
    }
  }
  // dynamic corollary: whatever a stepping run reports can be enabled, and what can be enabled is available
  Theo::VM vm(P);
  for (auto &e : P.potential_breaks)
    if (!vm.setBreakPoint(e.first.file, e.first.line, true)) {
      r.fail("bp:available-not-enableable", "location " + loc(e.first) + " is available but cannot be enabled");
      return;
    }
  vm.clearBreakpoints();
  vm.setSteppingMode(true);
  std::set<std::string> reported;
  // executeSingle loop, not execute(): a free-layout program may spin without passing any site
  // (e.g. "x := 1; l: GOTO l" on one line), and execute() cannot be interrupted
  int stops = 0;
  for (long k = 0; k < 30000 && stops < 400 && !vm.isDone(); k++) {
    if (!vm.executeSingle()) continue;
    int ip = vm.verif_ip();
    if (ip <= 0 || !P.line_info.count(ip - 1)) break;  // HALT
    stops++;
    Theo::BreakPoint b = vm.getCurrentBreak();
    if (reported.insert(loc(b)).second) {
      Theo::VM probe(P);
      if (!probe.setBreakPoint(b.file, b.line, true)) {
        r.fail("bp:stepped-not-enableable", "stepping stopped at " + loc(b) + ", which cannot be enabled as a breakpoint");
        return;
      }
    }
  }
  // classes
  bool header_shares_line = false;
  for (auto &f : files) {
    auto toks = ref::lex_text(f.second, f.first);
    for (size_t i = 0; i < toks.size(); i++)
      if (toks[i].k == ref::K::PROGRAM) {
        if (i > 0 && toks[i - 1].line == toks[i].line && toks[i - 1].k != ref::K::FNAME) header_shares_line = true;
      }
  }
  if (multi) r.cls("line-with>=2-sites");
  if (header_shares_line) r.cls("header-shares-line");
  if (files.size() >= 2) r.cls("files>=2");
  r.nontrivial = sites >= 2 && (multi || header_shares_line);
}

static void prop_c08(Tape &t, Result &r) {
  int nfiles = 1 + (int)t.weighted({3, 4, 3, 2});
  std::vector<uint8_t> lbytes = derive_bytes(t.u32(), 4096);
  Tape lt(lbytes);
  gp::GenCfg cfg;
  cfg.user_macros = t.chance(1, 2);
  gp::Gen g(t, cfg);
  gp::Program p = g.generate();
  gp::normalise(p);
  gp::Layout L = gp::layout_free(p, lt, nfiles);
  if (L.blank_includes) r.cls("layout:include-of-a-file-without-tokens");
  if (L.body_includes) r.cls("layout:include-inside-a-macro-body");
  if (L.main.rfind("__", 0) == 0) r.cls("layout:file-names-starting-with-__");
  if (L.main.rfind("Cc/", 0) == 0) r.cls("layout:file-names-differing-in-case-only");
  if (p.macros) r.cls("user-macros");
  judge_c08(L.files, L.main, r);
}
static void json_c08(const J &c, Result &r) {
  glue::Files files;
  std::string main;
  glue::files_from_json(c, files, main);
  judge_c08(files, main, r);
}
static Reg reg_c08({"C08", 500, prop_c08, nullptr, json_c08});

VERIF_MAIN
