// Thin glue shared by the harness TUs: the only place (besides the p_*.cpp files) that sees repository headers.
#pragma once
#include <map>
#include <set>
#include <string>

#include "../common/json.hpp"
#include "../common/tape.hpp"
#include "Compiler/include/compiler.hpp"
#include "Compiler/include/macro.hpp"
#include "Compiler/include/scan.hpp"
#include "VM/include/vm.hpp"

namespace glue {
typedef std::map<std::string, std::string> Files;

inline verif::J files_json(const Files &files, const std::string &main) {
  verif::J f = verif::J::obj();
  for (auto &p : files) f.set(p.first, p.second);
  verif::J c = verif::J::obj();
  c.set("files", f);
  c.set("main", main);
  return c;
}
inline uint64_t files_hash(const Files &files, const std::string &main) {
  uint64_t h = verif::fnv1a(main);
  for (auto &p : files) {
    h = verif::fnv1a(p.first, h) * 31;
    h = verif::fnv1a(p.second, h) * 131;
  }
  return h;
}
inline void files_from_json(const verif::J &c, Files &files, std::string &main) {
  for (auto &p : c.at("files").o) files[p.first] = p.second.s;
  main = c.at("main").s;
}
}  // namespace glue
