// Thin glue shared by the harness TUs: the only place (besides the p_*.cpp files) that sees repository headers.
#pragma once
#include <map>
#include <set>
#include <string>

#include "../common/json.hpp"
#include "../ref/ref_lexer.hpp"
#include "../common/tape.hpp"
#include "Compiler/include/compiler.hpp"
#include "Compiler/include/macro.hpp"
#include "Compiler/include/scan.hpp"
#include "VM/include/vm.hpp"

namespace glue {
typedef std::map<std::string, std::string> Files;

inline verif::J files_json(const Files &files, const std::string &main) {
  verif::J f = verif::J::obj();
  for (auto &p : files) f.set(p.first, p.second);
  verif::J c = verif::J::obj();
  c.set("files", f);
  c.set("main", main);
  return c;
}
inline uint64_t files_hash(const Files &files, const std::string &main) {
  uint64_t h = verif::fnv1a(main);
  for (auto &p : files) {
    h = verif::fnv1a(p.first, h) * 31;
    h = verif::fnv1a(p.second, h) * 131;
  }
  return h;
}
inline void files_from_json(const verif::J &c, Files &files, std::string &main) {
  for (auto &p : c.at("files").o) files[p.first] = p.second.s;
  main = c.at("main").s;
}
inline ref::K kind_of(Theo::Token::Type t) {
  using T = Theo::Token;
  switch (t) {
    case T::T_EOF: return ref::K::T_EOF;
    case T::ID: return ref::K::ID;
    case T::NV_ID: return ref::K::NV_ID;
    case T::INT: return ref::K::INT;
    case T::PAREN_CLOSE: return ref::K::PAREN_CLOSE;
    case T::PAREN_OPEN: return ref::K::PAREN_OPEN;
    case T::ARGSEP: return ref::K::ARGSEP;
    case T::PROGSEP: return ref::K::PROGSEP;
    case T::LABELDEC: return ref::K::LABELDEC;
    case T::ASSIGN: return ref::K::ASSIGN;
    case T::NEQ_ZERO: return ref::K::NEQ_ZERO;
    case T::EQ: return ref::K::EQ;
    case T::DO: return ref::K::DO;
    case T::LOOP: return ref::K::LOOP;
    case T::WHILE: return ref::K::WHILE;
    case T::GOTO: return ref::K::GOTO;
    case T::IF: return ref::K::IF;
    case T::THEN: return ref::K::THEN;
    case T::STOP: return ref::K::STOP;
    case T::END: return ref::K::END;
    case T::PROGRAM: return ref::K::PROGRAM;
    case T::IN: return ref::K::IN;
    case T::OUT: return ref::K::OUT;
    case T::INCLUDE: return ref::K::INCLUDE;
    case T::FNAME: return ref::K::FNAME;
    case T::DEFINE: return ref::K::DEFINE;
    case T::AS: return ref::K::AS;
    case T::PRIORITY: return ref::K::PRIORITY;
    case T::END_DEFINE: return ref::K::END_DEFINE;
    case T::PROG_TEMP: return ref::K::PROG_TEMP;
    case T::VALUE_TEMP: return ref::K::VALUE_TEMP;
    case T::ID_TEMP: return ref::K::ID_TEMP;
    case T::INT_TEMP: return ref::K::INT_TEMP;
    case T::ARGS_TEMP: return ref::K::ARGS_TEMP;
    case T::INSERTION: return ref::K::INSERTION;
    case T::TEMP_VAL: return ref::K::TEMP_VAL;
    case T::RUN: return ref::K::RUN;
    case T::WITH: return ref::K::WITH;
    default: return ref::K::NONE;
  }
}


// Pre-screen shared by every harness that compiles sources whose macro definitions were mutated or generated
// blindly: compile() always grants 1024 macro passes, each rescanning the whole stream, so an expansion that keeps
// growing costs minutes (and with a slot inserted twice grows exponentially - known finding F11). The expansion is
// probed with budgets 3..48 and the case is skipped (and counted by the caller) if it is still running with a
// stream that is large or projects to more than 1500 tokens. A time budget, i.e. inconclusive - never a verdict.
inline bool explosive_expansion(const Files &files, const std::string &main) {
  bool has_define = false;
  for (auto &f : files)
    if (f.second.find("efine") != std::string::npos || f.second.find("EFINE") != std::string::npos || f.second.find("def") != std::string::npos ||
        f.second.find("Def") != std::string::npos)
      has_define = true;
  if (!has_define) return false;
  Files f2 = files;
  Theo::ScanResult sr = Theo::scan(f2, main);
  Theo::MacroExtractionResult mer = Theo::extract_macros(sr.toks);
  if (mer.macros.empty()) return false;
  for (unsigned b : {3u, 6u, 12u, 24u, 48u}) {
    Theo::MacroApplicationResult mar = Theo::apply_macros(mer.tokens, mer.macros, b);
    bool still = false;
    for (auto &e : mar.errors)
      if (e.t == Theo::ParseError::MACRO_APPLY_REACHED_MAX_PASSES) still = true;
    if (!still) return false;
    if (mar.transformed_sequence.size() > 1500) return true;
    if (b == 48u) {
      double growth = ((double)mar.transformed_sequence.size() - (double)mer.tokens.size()) / 48.0;
      return (double)mer.tokens.size() + 1024.0 * (growth > 0 ? growth : 0) > 1500;
    }
  }
  return false;
}

inline ref::Tok to_ref(const Theo::Token &t) {
  ref::Tok r;
  r.k = kind_of(t.t);
  r.text = t.text;
  r.file = t.file;
  r.line = t.line;
  return r;
}
}  // namespace glue
