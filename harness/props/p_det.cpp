// p_det: C18 - compilation and execution are deterministic and share no state.
#include <sys/wait.h>
#include <unistd.h>

#include <thread>

#include "../common/gen_mut.hpp"
#include "../common/gen_program.hpp"
#include "../common/harness.hpp"
#include "glue.hpp"

using namespace verif;

// canonical serialisation of everything compile() returns
static std::string serialise(const Theo::CodegenResult &cr) {
  std::string s;
  auto num = [&](long v) { s += std::to_string(v) + ","; };
  s += cr.generated_correctly ? "OK|" : "ERR|";
  for (auto &e : cr.errors) {
    num((long)e.t);
    s += e.message + "@" + e.file + ":";
    num(e.line);
    s += ";";
  }
  s += "|req:";
  for (auto &f : cr.file_requests) s += f + ";";
  s += "|code:";
  for (auto &in : cr.code.code) {
    num((long)in.op);
    switch (in.op) {
      case Theo::OpCode::TEST: num(in.parameters.test.target), num(in.parameters.test.op1), num(in.parameters.test.op2); break;
      case Theo::OpCode::ADD_CONST: num(in.parameters.add.target), num(in.parameters.add.source), num(in.parameters.add.constant); break;
      case Theo::OpCode::CONST: num(in.parameters.constant.target), num(in.parameters.constant.constant); break;
      case Theo::OpCode::JMP: num(in.parameters.jmp.offset); break;
      case Theo::OpCode::JMPC: num(in.parameters.jmpc.offset), num(in.parameters.jmpc.source); break;
      case Theo::OpCode::PREPARE_EXEC: num(in.parameters.prepare.count), num(in.parameters.prepare.index), num(in.parameters.prepare.target); break;
      case Theo::OpCode::ARG: num(in.parameters.arg.target), num(in.parameters.arg.source); break;
      case Theo::OpCode::EXEC: num(in.parameters.exec.entry); break;
      case Theo::OpCode::RET: num(in.parameters.ret.source); break;
      default: break;
    }
    s += ";";
  }
  s += "|maps:";
  for (auto &m : cr.code.stack_maps) {
    s += m.func_name + "{";
    for (auto &e : m.map) s += std::to_string(e.first) + "=" + e.second + ",";
    s += "}";
  }
  s += "|pb:";
  for (auto &e : cr.code.potential_breaks) {
    s += e.first.file + ":" + std::to_string(e.first.line) + "[";
    for (int i : e.second) num(i);
    s += "]";
  }
  s += "|li:";
  for (auto &e : cr.code.line_info) s += std::to_string(e.first) + "=" + e.second.file + ":" + std::to_string(e.second.line) + ",";
  return s;
}

// run a compiled program for a bounded number of instructions and serialise what the API shows
static std::string run_and_serialise(const Theo::Program &prog, long steps, int mode) {
  Theo::VM vm(prog);
  std::string s;
  if (mode == 1) {
    vm.setSteppingMode(true);
    for (auto &e : prog.potential_breaks) {
      vm.setBreakPoint(e.first.file, e.first.line, true);
      break;
    }
  }
  long stops = 0;
  for (long i = 0; i < steps && !vm.isDone(); i++)
    if (vm.executeSingle()) {
      stops++;
      Theo::BreakPoint b = vm.getCurrentBreak();
      s += b.file + ":" + std::to_string(b.line) + ";";
    }
  s += "|done=" + std::to_string(vm.isDone()) + "|stops=" + std::to_string(stops) + "|";
  for (auto &a : vm.getActivations()) {
    for (auto &e : a.getActivationVariables()) s += e.first + "=" + std::to_string(e.second) + ",";
    s += "/";
  }
  return s;
}

static std::string whole(const glue::Files &files, const std::string &main) {
  Theo::CodegenResult cr = Theo::compile(files, main);
  std::string s = serialise(cr);
  if (cr.generated_correctly) s += "#run:" + run_and_serialise(cr.code, 3000, 0) + "#step:" + run_and_serialise(cr.code, 1500, 1);
  return s;
}

// ---- fresh-process server: started before this process compiles anything; forks one grandchild per request,
// so every answer comes from a process whose first compile() is the requested one
static int g_req = -1, g_resp = -1;
static void write_all(int fd, const std::string &s) {
  uint32_t n = (uint32_t)s.size();
  ssize_t w = write(fd, &n, 4);
  size_t off = 0;
  while (off < s.size()) {
    w = write(fd, s.data() + off, s.size() - off);
    if (w <= 0) return;
    off += (size_t)w;
  }
}
static bool read_all(int fd, std::string &s) {
  uint32_t n = 0;
  size_t got = 0;
  while (got < 4) {
    ssize_t r = read(fd, (char *)&n + got, 4 - got);
    if (r <= 0) return false;
    got += (size_t)r;
  }
  s.resize(n);
  got = 0;
  while (got < n) {
    ssize_t r = read(fd, &s[got], n - got);
    if (r <= 0) return false;
    got += (size_t)r;
  }
  return true;
}
static void start_server() {
  int rq[2], rs[2];
  if (pipe(rq) != 0 || pipe(rs) != 0) return;
  pid_t pid = fork();
  if (pid == 0) {
    close(rq[1]);
    close(rs[0]);
    signal(SIGALRM, SIG_DFL);
    alarm(0);
    std::string req;
    while (read_all(rq[0], req)) {
      int p2[2];
      if (pipe(p2) != 0) _exit(1);
      pid_t g = fork();
      if (g == 0) {
        close(p2[0]);
        JParser jp(req);
        J j = jp.parse();
        glue::Files files;
        std::string main;
        glue::files_from_json(j, files, main);
        alarm(60);
        std::string out = whole(files, main);
        write_all(p2[1], out);
        _exit(0);
      }
      close(p2[1]);
      std::string out;
      if (!read_all(p2[0], out)) out = "<fresh process died>";
      close(p2[0]);
      int st;
      waitpid(g, &st, 0);
      write_all(rs[1], out);
    }
    _exit(0);
  }
  close(rq[0]);
  close(rs[1]);
  g_req = rq[1];
  g_resp = rs[0];
}
static std::string fresh(const glue::Files &files, const std::string &main) {
  if (g_req < 0) start_server();
  write_all(g_req, glue::files_json(files, main).dump());
  std::string out;
  if (!read_all(g_resp, out)) return "<server died>";
  return out;
}

// ---- inputs
struct Input {
  glue::Files files;
  std::string main;
  std::string kind;
};
static Input gen_input(Tape &t) {
  Input in;
  unsigned mode = t.weighted({4, 3, 2, 1});
  int nfiles = 1 + (int)t.weighted({4, 2, 1});
  std::vector<uint8_t> lb = derive_bytes(t.u32(), 4096), eb = derive_bytes(t.u32() ^ 0xabcdef01u, 256);
  Tape lt(lb), et(eb);
  gp::GenCfg cfg;
  cfg.user_macros = mode == 1 || t.chance(1, 3);
  cfg.arith_heavy = mode == 1 && t.chance(1, 2);
  cfg.max_stmts = cfg.arith_heavy ? 10 : 18;
  gp::Gen g(t, cfg);
  gp::Program p = g.generate();
  gp::normalise(p);
  gp::Layout L = gp::layout_free(p, lt, nfiles);
  in.files = L.files;
  in.main = L.main;
  in.kind = p.macros ? "valid+macros" : "valid";
  if (mode == 2) {
    std::vector<std::string> toks = gm::texts_of(in.files[in.main]);
    for (int i = 0; i < 2; i++) gm::apply_edit(toks, gm::random_edit(et, toks, true));
    in.files[in.main] = gm::join(toks, 6);
    in.kind = "mutated";
  } else if (mode == 3) {
    in.files.clear();
    in.files[in.main] = gm::soup(t, true, 30);
    in.kind = "soup";
  }
  if (t.chance(1, 6)) {
    // a macro whose pattern is not prefix-deterministic in front of the program: it is reported (every time) and
    // never applied - a process-wide table cache that forgets the conflicts would accept it the second time
    static const char *NONLR[] = {"DEFINE twice <P> AS $0 ; $0 END DEFINE\n", "DEFINE <P> BUT FIRST <P> AS $1 ; $0 END DEFINE\n",
                                  "DEFINE both <P> ; <P> END AS $0 ; $1 END DEFINE\n", "DEFINE call <ID> <ARGS> AS RUN $0 WITH $1 END END DEFINE\n"};
    in.files[in.main] = NONLR[t.pick(4)] + in.files[in.main];
    in.kind += "+non-LR-macro";
  }
  if (t.chance(1, 8)) {
    // the caller may supply a file with the name of the hidden standard-macro file: it then replaces the hidden
    // one (same two rules here, shifted down by some lines, so the program keeps its meaning)
    std::string shift((size_t)(1 + t.pick(40)), '\n');
    in.files["__standards__"] = shift +
                                "DEFINE PRIO 1000000 <ID> + <INT> AS RUN __INC__ WITH $0, $1 END END DEFINE\n"
                                "DEFINE PRIO 1000000 <ID> - <INT> AS RUN __DEC__ WITH $0, $1 END END DEFINE\n";
    in.kind += "+own-standards-file";
  }
  return in;
}

static bool explosive(const Input &in) {
  // same pre-screen as C02: skip inputs whose expansion is still growing at the probe budgets (finding F11)
  glue::Files f2 = in.files;
  Theo::ScanResult sr = Theo::scan(f2, in.main);
  Theo::MacroExtractionResult mer = Theo::extract_macros(sr.toks);
  for (unsigned b : {3u, 6u, 12u, 24u, 48u}) {
    Theo::MacroApplicationResult mar = Theo::apply_macros(mer.tokens, mer.macros, b);
    bool still = false;
    for (auto &e : mar.errors)
      if (e.t == Theo::ParseError::MACRO_APPLY_REACHED_MAX_PASSES) still = true;
    if (!still) return false;
    if (mar.transformed_sequence.size() > 1500) return true;
    if (b == 48u) return mar.transformed_sequence.size() > mer.tokens.size() + 20;
  }
  return false;
}

static void prop_c18(Tape &t, Result &r) {
  if (g_req < 0) start_server();  // before this process has compiled anything
  int n = 2 + (int)t.pick(5);
  int nthreads = 1 + (int)t.weighted({2, 3, 2, 1, 1, 1, 1, 1});
  std::vector<Input> inputs;
  for (int i = 0; i < n; i++) {
    Input in;
    if (!inputs.empty() && t.chance(1, 3)) {
      // a near copy of the previous input: one numeric token (a literal, a priority) or one identifier changed -
      // what an editor-recompile cycle produces, and what a cache keyed on too little mishandles
      in = inputs.back();
      std::vector<std::string> names;
      for (auto &f : in.files) names.push_back(f.first);
      std::string victim = names[t.pick((unsigned)names.size())];
      std::vector<ref::Tok> toks = ref::lex_text(in.files[victim], victim);
      std::vector<size_t> nums, ids, prios;
      for (size_t k = 0; k < toks.size(); k++) {
        if (toks[k].k == ref::K::INT) nums.push_back(k);
        if (toks[k].k == ref::K::INT && k > 0 && toks[k - 1].k == ref::K::PRIORITY) prios.push_back(k);
        if (toks[k].k == ref::K::ID) ids.push_back(k);
      }
      if (!prios.empty() && t.chance(1, 2)) nums = prios;  // a changed macro priority is the most consequential one-number edit
      std::vector<std::string> texts;
      for (auto &tk : toks) texts.push_back(tk.text);
      if (!nums.empty() && t.chance(2, 3)) {
        size_t k = nums[t.pick((unsigned)nums.size())];
        texts[k] = std::to_string((atoi(texts[k].c_str()) + 1 + (int)t.pick(17)) % 40);
        in.kind += "+number-changed";
      } else if (!ids.empty()) {
        size_t k = ids[t.pick((unsigned)ids.size())];
        texts[k] = ids.size() > 1 ? texts[ids[t.pick((unsigned)ids.size())]] : "x9";
        in.kind += "+identifier-changed";
      }
      in.files[victim] = gm::join(texts, 8);
      r.cls("near-copy-of-previous-input");
    } else
      in = gen_input(t);
    if (explosive(in)) continue;
    inputs.push_back(in);
  }
  if (inputs.size() < 2) {
    r.discard = true;
    return;
  }
  J sample = J::obj();
  J arr = J::arr();
  for (auto &in : inputs) arr.push(glue::files_json(in.files, in.main));
  sample.set("inputs", arr);
  sample.set("threads", nthreads);
  r.sample = sample;
  r.hash = fnv1a(sample.dump());
  // (a) history independence: after any prefix of other compiles / runs, compile(x) equals compile(x) as the
  // first call of a fresh process
  std::vector<std::string> seq;
  for (size_t i = 0; i < inputs.size(); i++) {
    std::string here = whole(inputs[i].files, inputs[i].main);
    std::string there = fresh(inputs[i].files, inputs[i].main);
    if (here != there) {
      size_t d = 0;
      while (d < here.size() && d < there.size() && here[d] == there[d]) d++;
      r.fail("det:history-dependent", "input #" + std::to_string(i) + " (" + inputs[i].kind + ") compiled after " + std::to_string(i) +
                                          " other inputs differs from its compilation as the first call of a fresh process, first difference at byte " +
                                          std::to_string(d) + ": ..." + here.substr(d > 30 ? d - 30 : 0, 80) + "... vs ..." + there.substr(d > 30 ? d - 30 : 0, 80) + "...");
      return;
    }
    seq.push_back(here);
  }
  // the same input twice in a row
  {
    std::string again = whole(inputs[0].files, inputs[0].main);
    if (again != seq[0]) {
      r.fail("det:history-dependent", "compiling input #0 again after the others gives a different result");
      return;
    }
  }
  // (b) threads: every thread compiles and runs its share (and thread 0 everything), results per input must equal
  // the single-threaded serialisation
  bool interleaved_macro_loop = false;
  if (nthreads >= 2) {
    std::vector<std::vector<std::string>> got((size_t)nthreads);
    std::vector<std::thread> th;
    for (int k = 0; k < nthreads; k++)
      th.emplace_back([&, k]() {
        for (size_t i = 0; i < inputs.size(); i++) {
          if (k != 0 && ((i + (size_t)k) % 2)) {  // thread 0 does everything, the others every other input
            got[(size_t)k].push_back("");
            continue;
          }
          got[(size_t)k].push_back(whole(inputs[i].files, inputs[i].main));
        }
      });
    for (auto &x : th) x.join();
    for (int k = 0; k < nthreads; k++)
      for (size_t i = 0; i < inputs.size(); i++)
        if (!got[(size_t)k][i].empty() && got[(size_t)k][i] != seq[i]) {
          r.fail("det:thread-interference", "input #" + std::to_string(i) + " compiled/run on thread " + std::to_string(k) + " of " + std::to_string(nthreads) +
                                                " differs from its single-threaded result");
          return;
        }
    std::set<std::string> kinds;
    for (auto &in : inputs) kinds.insert(in.kind);
    interleaved_macro_loop = kinds.count("valid+macros") > 0 && inputs.size() >= 2;
    r.cls("threads>=2");
  }
  // (c) distinct VM instances on one program do not influence one another (interleaved step by step)
  {
    Theo::CodegenResult cr = Theo::compile(inputs[0].files, inputs[0].main);
    if (cr.generated_correctly) {
      std::string solo = run_and_serialise(cr.code, 600, 0);
      Theo::VM a(cr.code), b(cr.code);
      b.setSteppingMode(true);
      for (auto &e : cr.code.potential_breaks) b.setBreakPoint(e.first.file, e.first.line, true);
      std::string sa;
      long stops = 0;
      for (long i = 0; i < 600 && !a.isDone(); i++) {
        if (a.executeSingle()) {
          stops++;
          Theo::BreakPoint bp = a.getCurrentBreak();
          sa += bp.file + ":" + std::to_string(bp.line) + ";";
        }
        if (!b.isDone()) b.executeSingle();
        if (i == 100) b.reset();
      }
      sa += "|done=" + std::to_string(a.isDone()) + "|stops=" + std::to_string(stops) + "|";
      for (auto &act : a.getActivations()) {
        for (auto &e : act.getActivationVariables()) sa += e.first + "=" + std::to_string(e.second) + ",";
        sa += "/";
      }
      if (sa != solo) {
        r.fail("det:vm-instances-interfere", "a VM driven in lock step with a second VM on the same program (stepping, breakpoints, reset) behaves differently from the same VM alone");
        return;
      }
      r.cls("two-vms-interleaved");
    }
  }
  for (auto &in : inputs) r.cls("input:" + in.kind);
  r.nontrivial = nthreads >= 2 ? interleaved_macro_loop : inputs.size() >= 3;
}
// every case runs in a forked child (Prop::isolated): the case's own sequence of compiles and runs is then the
// complete history of its process, so a failure is reproducible from the case alone and shrinks
static Prop mk_c18() {
  Prop p;
  p.id = "C18";
  p.maxlen = 1400;
  p.fn = prop_c18;
  p.isolated = true;
  return p;
}
static Reg reg_c18(mk_c18());

VERIF_MAIN
