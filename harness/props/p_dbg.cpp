// p_dbg: C05 (debugging is transparent), C06 (the debugger stops exactly where asked),
// C17 (reset gives a fresh machine, the end is absorbing). One history executor checks all three
// families against an explicit model over the recorded uninterrupted run; each property's check
// reports only the failures of its own family (VERIF_FAMILY).
#include <cstring>

#include "../common/gen_program.hpp"
#include "../common/harness.hpp"
#include "glue.hpp"

using namespace verif;
using Theo::OpCode;

typedef std::pair<std::string, int> Loc;

struct Trace {
  Theo::Program prog;
  std::vector<int> ips;            // ips[k] = instruction executed at step k; the last entry is the HALT if halted
  std::vector<uint64_t> digests;   // state digest before executing ips[k]
  bool halted = false;
  std::vector<Loc> available;
  size_t maxsteps = 1500;
};

static uint64_t state_digest(Theo::VM &vm, const Theo::Program &prog) {
  uint64_t h = 1469598103934665603ULL;
  auto fr = vm.verif_frames();
  auto &acts = vm.getActivations();
  for (size_t i = 0; i < acts.size(); i++) {
    int di = fr[i].debug_info;
    if (di >= 0 && (size_t)di < prog.stack_maps.size()) h = fnv1a(prog.stack_maps[(size_t)di].func_name, h);
    for (auto &e : acts[i].getActivationVariables()) {
      h = fnv1a(e.first, h);
      h = fnv1a(&e.second, sizeof e.second, h);
    }
    h = h * 1099511628211ULL + 7;
  }
  return h;
}

static void build_trace(const Theo::Program &prog, size_t maxsteps, Trace &tr) {
  tr.prog = prog;
  tr.maxsteps = maxsteps;
  Theo::VM vm(prog);
  for (size_t k = 0; k <= maxsteps; k++) {
    tr.ips.push_back(vm.verif_ip());
    tr.digests.push_back(state_digest(vm, prog));
    if (vm.isDone()) {
      tr.halted = true;
      break;
    }
    if (k == maxsteps) break;
    vm.executeSingle();
  }
  // "locations listed as available": the public listing
  {
    Theo::Program copy = prog;
    for (auto &b : copy.getAvailableBreakpoints()) tr.available.push_back({b.file, b.line});
  }
}

struct Op {
  enum K { EXECUTE, SINGLE, SINGLE_N, STEP_ON, STEP_OFF, ENABLE, DISABLE, CLEAR, RESET, READ, ENABLE_ALL, UNTIL_DONE } k = SINGLE;
  bool exec() const { return k == EXECUTE || k == SINGLE || k == SINGLE_N || k == UNTIL_DONE; }
  Loc loc;
  int n = 1;
};

static std::string op_str(const Op &o) {
  switch (o.k) {
    case Op::EXECUTE: return "execute";
    case Op::SINGLE: return "executeSingle";
    case Op::SINGLE_N: return "executeSingle*" + std::to_string(o.n);
    case Op::STEP_ON: return "stepping(on)";
    case Op::STEP_OFF: return "stepping(off)";
    case Op::ENABLE: return "enable(" + o.loc.first + ":" + std::to_string(o.loc.second) + ")";
    case Op::DISABLE: return "disable(" + o.loc.first + ":" + std::to_string(o.loc.second) + ")";
    case Op::CLEAR: return "clear";
    case Op::RESET: return "reset";
    case Op::READ: return "read";
    case Op::ENABLE_ALL: return "enable-all";
    case Op::UNTIL_DONE: return "step-until-done";
  }
  return "?";
}

struct Model {
  size_t k = 0;
  std::set<Loc> E;
  bool S = false;
};

struct Obs {  // what a user can observe (+ip through the hook)
  int ip;
  bool done;
  std::set<Loc> enabled;
  bool stepping;
  Loc cur;
  uint64_t digest;
  size_t depth;
};
static Obs observe(Theo::VM &vm, const Theo::Program &prog) {
  Obs o;
  o.ip = vm.verif_ip();
  o.done = vm.isDone();
  for (auto &b : vm.getEnabledBreakPoints()) o.enabled.insert({b.file, b.line});
  o.stepping = vm.isSteppingModeEnabled();
  Theo::BreakPoint b = vm.getCurrentBreak();
  o.cur = {b.file, b.line};
  o.digest = state_digest(vm, prog);
  o.depth = vm.getActivations().size();
  return o;
}

struct HistoryStats {
  int stops = 0, stops_in_callee_or_loop = 0, toggles_after_start = 0, resets_live = 0, queried_after_toggle = 0;
  std::set<int> stop_sites;
  bool stop_on_multi_site_line = false, stop_in_callee = false, toggled_current_line = false, disabled_before_reaching = false;
  bool reached_end = false, absorbing_checked = false, reset_with_state = false;
};

static std::string family() {
  const char *f = getenv("VERIF_FAMILY");
  return f ? f : "ALL";
}

// returns false when a failure of the selected family was recorded in r
static bool run_history(const Trace &tr, const std::vector<Op> &ops, Result &r, HistoryStats &st) {
  const Theo::Program &prog = tr.prog;
  const std::string fam = family();
  auto failf = [&](const char *f, const std::string &sig, const std::string &msg) {
    if (fam == "ALL" || fam == f) {
      r.fail(sig, msg);
      return true;
    }
    r.cls(std::string("other-family-failure:") + f);
    return false;
  };
  Theo::VM vm(prog);
  std::unique_ptr<Theo::VM> shadow;  // fresh machine created at the last reset (C17 differential)
  Model m;
  bool expect_none = true;  // before execution starts / after a reset the current location is none
  // the machine is stopped at a site (last resuming call ended there): the location stays that site's until it is resumed
  bool standing = false;
  Loc standing_loc;
  std::string hist;
  auto is_site = [&](int ip) { return prog.line_info.count(ip) > 0; };
  auto site_loc = [&](int ip) {
    const Theo::BreakPoint &b = prog.line_info.at(ip);
    return Loc{b.file, b.line};
  };
  size_t last = tr.ips.size() - 1;
  for (size_t oi = 0; oi < ops.size(); oi++) {
    Op op = ops[oi];
    // execute() cannot be bounded from outside: only issue it when the model predicts that it returns inside the
    // recorded run (a stop, or the HALT of a run that ended); otherwise step instead
    if (op.k == Op::EXECUTE) {
      bool returns = tr.halted;
      for (size_t j = m.k; j < last && !returns; j++)
        if (is_site(tr.ips[j]) && (m.S || m.E.count(site_loc(tr.ips[j])))) returns = true;
      if (!returns) {
        op.k = Op::SINGLE_N;
        op.n = 7;
      }
    }
    hist += (hist.empty() ? "" : "; ") + op_str(op);
    bool stopped_at_site = false;
    Loc stop_loc;
    bool ret_bool = false, have_ret = false, model_ret = false;
    bool was_done = tr.halted && m.k == last;
    Obs before_obs = observe(vm, prog);
    switch (op.k) {
      case Op::EXECUTE: {
        vm.execute();
        if (shadow) shadow->execute();
        size_t j = m.k;
        bool found = false;
        for (; j < last; j++)
          if (is_site(tr.ips[j]) && (m.S || m.E.count(site_loc(tr.ips[j])))) {
            found = true;
            break;
          }
        if (found) {
          stopped_at_site = true;
          stop_loc = site_loc(tr.ips[j]);
          st.stop_sites.insert(tr.ips[j]);
          m.k = j + 1;
        } else
          m.k = last;  // HALT (tr.halted holds, see above)
        break;
      }
      case Op::SINGLE:
      case Op::UNTIL_DONE:  // the user loop `while (!vm.isDone()) vm.executeSingle();` - return values ignored
      case Op::SINGLE_N: {
        bool until_done = op.k == Op::UNTIL_DONE;
        int n = op.k == Op::SINGLE ? 1 : until_done ? (int)(last - m.k) : op.n;
        for (int i = 0; i < n; i++) {
          if (m.k >= last && !tr.halted) break;  // end of the recorded prefix
          if (until_done && vm.isDone()) break;
          bool ret = vm.executeSingle();
          if (shadow) {
            bool r2 = shadow->executeSingle();
            if (r2 != ret && failf("C17", "reset:differs-from-fresh", "after reset, executeSingle returned " + std::to_string(ret) +
                                                                         " but " + std::to_string(r2) + " on a fresh machine; history: " + hist))
              return false;
          }
          int ip = tr.ips[m.k];
          bool expect;
          stopped_at_site = false;
          if (tr.halted && m.k == last)
            expect = true;
          else if (is_site(ip)) {
            expect = m.S || m.E.count(site_loc(ip));
            if (expect) {
              stopped_at_site = true;
              stop_loc = site_loc(ip);
              st.stop_sites.insert(ip);
            }
            m.k++;
          } else {
            expect = false;
            m.k++;
          }
          ret_bool = ret;
          model_ret = expect;
          have_ret = true;
          if (ret != expect) break;
          if (ret && !until_done) break;  // a user loop stops stepping here
        }
        break;
      }
      case Op::STEP_ON:
      case Op::STEP_OFF:
        vm.setSteppingMode(op.k == Op::STEP_ON);
        if (shadow) shadow->setSteppingMode(op.k == Op::STEP_ON);
        m.S = op.k == Op::STEP_ON;
        if (m.k > 0) st.toggles_after_start++;
        break;
      case Op::ENABLE:
      case Op::DISABLE: {
        bool on = op.k == Op::ENABLE;
        bool ret = vm.setBreakPoint(op.loc.first, op.loc.second, on);
        if (shadow) shadow->setBreakPoint(op.loc.first, op.loc.second, on);
        bool avail = std::find(tr.available.begin(), tr.available.end(), op.loc) != tr.available.end();
        ret_bool = ret;
        model_ret = avail;
        have_ret = true;
        if (avail) {
          if (on)
            m.E.insert(op.loc);
          else {
            if (m.E.count(op.loc)) {
              // disabling a line that has not been reached yet
              for (size_t j = m.k; j < last; j++)
                if (is_site(tr.ips[j]) && site_loc(tr.ips[j]) == op.loc) {
                  st.disabled_before_reaching = true;
                  break;
                }
            }
            m.E.erase(op.loc);
          }
          if (m.k > 0) st.toggles_after_start++;
          if (m.k > 0 && is_site(tr.ips[m.k - 1]) && site_loc(tr.ips[m.k - 1]) == op.loc) st.toggled_current_line = true;
        }
        break;
      }
      case Op::ENABLE_ALL:  // "break everywhere": every available location, in table order
        for (auto &loc : tr.available) {
          bool ret = vm.setBreakPoint(loc.first, loc.second, true);
          if (shadow) shadow->setBreakPoint(loc.first, loc.second, true);
          if (!ret) {
            ret_bool = false;
            model_ret = true;
            have_ret = true;
          }
          m.E.insert(loc);
        }
        if (m.k > 0) st.toggles_after_start++;
        break;
      case Op::CLEAR:
        vm.clearBreakpoints();
        if (shadow) shadow->clearBreakpoints();
        m.E.clear();
        break;
      case Op::RESET: {
        if (vm.getActivations().size() >= 2 && !m.E.empty()) st.reset_with_state = true;
        if (m.k > 0) st.resets_live++;
        vm.reset();
        m = Model();
        expect_none = true;
        shadow.reset(new Theo::VM(prog));
        // indistinguishable from a newly constructed machine, including the hidden state
        if (vm.verif_ip() != 0 || !vm.verif_data().empty() || !vm.verif_frames().empty() || !vm.getActivations().empty()) {
          if (failf("C17", "reset:state-left-behind", "after reset: ip=" + std::to_string(vm.verif_ip()) + " data words=" +
                                                         std::to_string(vm.verif_data().size()) + " frames=" +
                                                         std::to_string(vm.verif_frames().size()) + "; history: " + hist))
            return false;
        }
        for (auto &e : prog.line_info)
          if (vm.verif_code().code[(size_t)e.first].op != OpCode::POTENTIAL_BREAK) {
            if (failf("C17", "reset:site-not-passive", "after reset the site at " + std::to_string(e.first) + " is not in its passive form; history: " + hist))
              return false;
            break;
          }
        break;
      }
      case Op::READ: {
        auto &a = vm.getActivations();
        for (auto &x : a) (void)x.getActivationVariables();
        (void)vm.getCurrentBreak();
        break;
      }
    }
    if (op.k != Op::RESET && op.exec() && m.k > 0) expect_none = false;
    // ---- compare with the model
    Obs o = observe(vm, prog);
    std::string ctx = " after [" + hist + "]";
    // C17: the end is absorbing
    if (was_done && op.exec()) {
      st.absorbing_checked = true;
      if (o.ip != before_obs.ip || o.digest != before_obs.digest || o.enabled != before_obs.enabled || o.cur != before_obs.cur || !o.done ||
          (have_ret && !ret_bool)) {
        if (failf("C17", "reset:end-not-absorbing", "the end of the program had been reached, yet " + op_str(op) + " changed the machine" + ctx)) return false;
      }
    }
    if (have_ret && ret_bool != model_ret) {
      const char *f = (op.k == Op::ENABLE || op.k == Op::DISABLE) ? "C06" : "C06";
      if (failf(f, (op.k == Op::ENABLE || op.k == Op::DISABLE) ? "stop:setBreakPoint-result" : "stop:executeSingle-result",
                op_str(op) + " returned " + (ret_bool ? "true" : "false") + ", expected " + (model_ret ? "true" : "false") + ctx))
        return false;
    }
    if (m.k < tr.ips.size() && o.ip != tr.ips[m.k]) {
      // which family: leaving the instruction path is C05; stopping elsewhere on the path is C06
      bool on_path = false;
      for (size_t j = 0; j < tr.ips.size(); j++)
        if (tr.ips[j] == o.ip) on_path = true;
      bool exec_op = op.exec();
      const char *f = (!exec_op || !on_path) ? "C05" : "C06";
      if (op.k == Op::RESET) f = "C17";
      if (failf(f, std::string(f[2] == '5' ? "transparent" : f[2] == '6' ? "stop" : "reset") + ":wrong-position",
                "instruction pointer is " + std::to_string(o.ip) + ", the model expects position " + std::to_string(m.k) + " of the uninterrupted run (ip " +
                    std::to_string(tr.ips[m.k]) + ")" + ctx))
        return false;
      return true;  // cannot continue comparing
    }
    if (m.k < tr.digests.size() && o.digest != tr.digests[m.k]) {
      if (failf(op.k == Op::RESET ? "C17" : "C05", op.k == Op::RESET ? "reset:wrong-values" : "transparent:wrong-values",
                "variable values differ from the uninterrupted run at the same position (" + std::to_string(m.k) + ")" + ctx))
        return false;
      return true;
    }
    bool model_done = tr.halted && m.k == last;
    if (o.done != model_done) {
      if (failf("C06", "stop:isDone", std::string("isDone() is ") + (o.done ? "true" : "false") + ", expected " + (model_done ? "true" : "false") + ctx))
        return false;
    }
    if (o.enabled != m.E) {
      if (failf(op.k == Op::RESET ? "C17" : "C06", op.k == Op::RESET ? "reset:enabled-set" : "stop:enabled-set",
                "enabled set has " + std::to_string(o.enabled.size()) + " entries, the model " + std::to_string(m.E.size()) + ctx))
        return false;
    }
    if (o.stepping != m.S) {
      if (failf(op.k == Op::RESET ? "C17" : "C06", op.k == Op::RESET ? "reset:stepping-mode" : "stop:stepping-mode", "stepping mode flag differs from the model" + ctx))
        return false;
    }
    if (stopped_at_site) {
      st.stops++;
      if (o.cur != stop_loc) {
        if (failf("C06", "stop:current-location", "stopped at the site of " + stop_loc.first + ":" + std::to_string(stop_loc.second) +
                                                      " but getCurrentBreak() reports " + o.cur.first + ":" + std::to_string(o.cur.second) + ctx))
          return false;
      }
      {
        auto pb = prog.potential_breaks.find(Theo::BreakPoint{stop_loc.first, stop_loc.second});
        if (pb != prog.potential_breaks.end() && pb->second.size() >= 2) st.stop_on_multi_site_line = true;
      }
      if (o.depth >= 2) st.stop_in_callee = true;
    }
    {
      bool exec_op = op.exec();
      if (op.k == Op::RESET)
        standing = false;
      else if (exec_op) {
        standing = stopped_at_site;
        standing_loc = stop_loc;
      } else if (standing) {
        st.queried_after_toggle++;
        if (o.cur != standing_loc) {
          if (failf("C06", "stop:current-location-after-toggle",
                    "stopped at the site of " + standing_loc.first + ":" + std::to_string(standing_loc.second) + " and not resumed since, but after " +
                        op_str(op) + " getCurrentBreak() reports " + o.cur.first + ":" + std::to_string(o.cur.second) + ctx))
            return false;
        }
      }
    }
    if (expect_none && (o.cur.first != "none" || o.cur.second != -1)) {
      if (failf(op.k == Op::RESET ? "C17" : "C06", op.k == Op::RESET ? "reset:current-location" : "stop:current-location-before-start",
                "no instruction executed yet, but getCurrentBreak() reports " + o.cur.first + ":" + std::to_string(o.cur.second) + ctx))
        return false;
    }
    // C05: the machine's private code differs from the compiled program only in the opcode of listed sites
    {
      const auto &vc = vm.verif_code().code;
      if (vc.size() != prog.code.size()) {
        if (failf("C05", "transparent:code-size", "the machine's code changed size" + ctx)) return false;
      } else
        for (size_t i = 0; i < vc.size(); i++) {
          if (is_site((int)i)) {
            // how a site is armed is the implementation's business (the stop behaviour is what C06 judges, and
            // "back to its passive form" is asserted right after reset for C17); here only: a site stays a site
            if (vc[i].op != OpCode::BREAK && vc[i].op != OpCode::POTENTIAL_BREAK) {
              if (failf("C05", "transparent:code-modified", "breakpoint site " + std::to_string(i) + " was replaced by another instruction" + ctx)) return false;
            }
          } else if (memcmp(&vc[i], &prog.code[i], sizeof(Theo::Instruction)) != 0) {
            if (failf("C05", "transparent:code-modified", "instruction " + std::to_string(i) + " (not a breakpoint site) was modified" + ctx)) return false;
            break;
          }
        }
    }
    // C17: after a reset everything observable equals the fresh machine driven by the same calls
    if (shadow) {
      Obs s = observe(*shadow, prog);
      if (s.ip != o.ip || s.done != o.done || s.enabled != o.enabled || s.stepping != o.stepping || s.cur != o.cur || s.digest != o.digest ||
          vm.verif_data() != shadow->verif_data()) {
        if (failf("C17", "reset:differs-from-fresh", "the reset machine and a fresh machine driven by the same calls differ" + ctx)) return false;
      }
    }
    if (model_done) st.reached_end = true;
  }
  // complete the history: clear; stepping off; execute  => same final values as the uninterrupted run
  if (tr.halted) {
    vm.clearBreakpoints();
    vm.setSteppingMode(false);
    vm.execute();
    Obs o = observe(vm, prog);
    if (!o.done || o.ip != tr.ips[last] || o.digest != tr.digests[last]) {
      if (failf("C05", "transparent:final-state", "after completing the history with clear; stepping(off); execute the final state differs from the uninterrupted run; history: " + hist))
        return false;
    }
  }
  return true;
}

// ------------------------------------------------------------------------------------ generators
static Op decode_op(Tape &t, const Trace &tr, bool with_reset) {
  Op o;
  std::vector<Loc> pool = tr.available;
  pool.push_back({"nofile.theo", 1});
  pool.push_back({tr.available.empty() ? std::string("main.theo") : tr.available[0].first, 99999});
  pool.push_back({"__standards__", 1});
  // every location the program's own tables name: a request for one that the public listing omits must fail
  for (auto &e : tr.prog.line_info) {
    Loc l{e.second.file, e.second.line};
    if (std::find(pool.begin(), pool.end(), l) == pool.end()) pool.push_back(l);
  }
  for (auto &e : tr.prog.potential_breaks) {
    Loc l{e.first.file, e.first.line};
    if (std::find(pool.begin(), pool.end(), l) == pool.end()) pool.push_back(l);
  }
  switch (t.weighted({5, 5, 3, 2, 2, 6, 3, 1, (unsigned)(with_reset ? 2 : 0), 1, 1, 1})) {
    case 11: o.k = Op::UNTIL_DONE; break;
    case 0: o.k = Op::SINGLE; break;
    case 1: o.k = Op::EXECUTE; break;
    case 2:
      o.k = Op::SINGLE_N;
      o.n = 2 + (int)t.pick(30);
      break;
    case 3: o.k = Op::STEP_ON; break;
    case 4: o.k = Op::STEP_OFF; break;
    case 5:
      o.k = Op::ENABLE;
      o.loc = pool[t.pick((unsigned)pool.size())];
      break;
    case 6:
      o.k = Op::DISABLE;
      o.loc = pool[t.pick((unsigned)pool.size())];
      break;
    case 7: o.k = Op::CLEAR; break;
    case 8: o.k = Op::RESET; break;
    case 9: o.k = Op::READ; break;
    case 10: o.k = Op::ENABLE_ALL; break;
  }
  return o;
}

static J history_json(const glue::Files &files, const std::string &main, const std::vector<Op> &ops, size_t trace_steps = 1500) {
  J j = glue::files_json(files, main);
  j.set("trace_steps", (unsigned long)trace_steps);
  J h = J::arr();
  for (auto &o : ops) h.push(op_str(o));
  j.set("history", h);
  return j;
}

static void classify(const HistoryStats &st, Result &r, const std::string &prop) {
  if (st.stops) r.cls("stops>=1");
  if (st.stop_sites.size() >= 2) r.cls("stops-at>=2-sites");
  if (st.stop_on_multi_site_line) r.cls("stop-on-line-with>=2-sites");
  if (st.stop_in_callee) r.cls("stop-inside-callee");
  if (st.toggled_current_line) r.cls("toggle-the-line-stopped-on");
  if (st.disabled_before_reaching) r.cls("disable-before-reaching");
  if (st.toggles_after_start) r.cls("toggle-after-start");
  if (st.queried_after_toggle) r.cls("location-queried-after-toggle-while-stopped");
  if (st.reached_end) r.cls("reached-end");
  if (st.absorbing_checked) r.cls("call-after-end");
  if (st.resets_live) r.cls("reset-after-progress");
  if (st.reset_with_state) r.cls("reset-with->=2-activations-and-breakpoint");
  if (prop == "C05")
    r.nontrivial = st.stops >= 1 && (st.stop_in_callee || st.stops >= 2) && st.toggles_after_start >= 1;
  else if (prop == "C06")
    r.nontrivial = st.stop_sites.size() >= 2 && (st.stop_on_multi_site_line || st.stop_in_callee);
  else
    r.nontrivial = st.reset_with_state || (st.resets_live && st.absorbing_checked);
}

static void prop_dbg(Tape &t, Result &r, const std::string &prop) {
  bool canonical = t.chance(1, 3);
  int nfiles = 1 + (int)t.weighted({3, 3, 2});
  int nops = 3 + (int)t.pick(38);
  std::vector<uint8_t> lbytes = derive_bytes(t.u32(), 4096), hbytes = derive_bytes(t.u32() ^ 0x7f4a7c15u, 512);
  Tape lt(lbytes), ht(hbytes);
  gp::GenCfg cfg;
  cfg.user_macros = t.chance(2, 5);
  cfg.max_stmts = 20;
  cfg.force_call_in_loop = t.chance(1, 3);
  gp::Gen g(t, cfg);
  gp::Program p = g.generate();
  gp::normalise(p);
  gp::Layout L = canonical ? gp::layout_canonical(p, lt, nfiles) : gp::layout_free(p, lt, nfiles);
  if (L.blank_includes) r.cls("layout:include-of-a-file-without-tokens");
  if (L.body_includes) r.cls("layout:include-inside-a-macro-body");
  if (L.main.rfind("__", 0) == 0) r.cls("layout:file-names-starting-with-__");
  if (L.main.rfind("Cc/", 0) == 0) r.cls("layout:file-names-differing-in-case-only");
  Theo::CodegenResult cr = Theo::compile(L.files, L.main);
  r.hash = glue::files_hash(L.files, L.main);
  if (!cr.generated_correctly) {
    r.sample = glue::files_json(L.files, L.main);
    r.fail("dbg:wellformed-source-rejected", "generated well-formed source was rejected: " + (cr.errors.empty() ? std::string() : cr.errors[0].message));
    return;
  }
  Trace tr;
  build_trace(cr.code, 1500, tr);
  std::vector<Op> ops;
  bool with_reset = prop != "C05";
  // histories that make progress: bias towards enabling real lines early
  for (int i = 0; i < nops; i++) {
    Op o = decode_op(ht, tr, with_reset);
    if (prop == "C17" && i == nops / 2) o.k = Op::RESET;
    ops.push_back(o);
  }
  r.sample = history_json(L.files, L.main, ops);
  r.hash = fnv1a(r.sample.dump());
  HistoryStats st;
  run_history(tr, ops, r, st);
  if (tr.halted)
    r.cls("program-halts");
  else
    r.cls("program-does-not-halt-in-budget");
  classify(st, r, prop);
}

// exhaustive short histories on fixed small programs
static const char *SMALL_INC = "x1 := x0 + 1;\nx1 := x1 + 2;";  // file "inc", included mid-line by the last program
static const char *SMALL[] = {
    // loop with call, canonical
    "PROGRAM f IN a OUT r DO\nr := a + 1\nEND\nn := 2;\nLOOP n DO\nx0 := RUN f WITH x0 END\nEND;\nx1 := x0",
    // two sites on a line / header sharing a line
    "x0 := 1; x1 := 2;\nx2 := 3; LOOP x0 DO x1 := x1 + 1\nEND; x2 := x1",
    // STOP in callee
    "PROGRAM g IN a DO\nIF a = 0 THEN GOTO e;\nSTOP;\ne: x0 := 5\nEND\nx0 := RUN g WITH 0 END;\nx1 := RUN g WITH 1 END;\nx2 := 9",
    // while with jump out
    "x0 := 3;\nWHILE x0 != 0 DO\nx0 := x0 - 1;\nIF x0 = 1 THEN GOTO fin\nEND;\nfin: x1 := x0",
    // program on one line
    "PROGRAM h IN a, b OUT b DO b := a END x0 := RUN h WITH 4, 5 END; x1 := RUN h WITH x0, x0 END",
    // nested calls as arguments
    "PROGRAM inc IN a DO\nx0 := a + 1\nEND\nPROGRAM twice IN a DO\nx0 := RUN inc WITH RUN inc WITH a END END\nEND\nx1 := RUN twice WITH RUN inc WITH 0 END END",
    // a line re-entered after an include: main.theo:1 owns two sites
    "x0 := 1; include \"inc\" x2 := x1;\nLOOP x2 DO include \"inc\" x3 := x1 END",
};

static void enum_dbg(Runner &run, int shard, int nshards, const std::string &tier, const std::string &prop) {
  int L = tier == "thorough" ? 6 : 5;
  unsigned long idx = 0;
  for (size_t pi = 0; pi < sizeof SMALL / sizeof *SMALL; pi++) {
    glue::Files files{{"main.theo", SMALL[pi]}, {"inc", SMALL_INC}};
    Theo::CodegenResult cr = Theo::compile(files, "main.theo");
    if (!cr.generated_correctly) {
      Result r;
      r.harness_error = true;
      r.msg = "fixed small program " + std::to_string(pi) + " does not compile: " + (cr.errors.empty() ? "" : cr.errors[0].message);
      run.record(r);
      return;
    }
    Trace tr;
    build_trace(cr.code, 1500, tr);
    // alphabet: execute, executeSingle, stepping on/off, enable A, disable A, enable B, clear (+ reset)
    // (a program written on a single line after a header has no site at all: then both are bogus)
    Loc A = tr.available.empty() ? Loc{"main.theo", 1} : tr.available[tr.available.size() / 2];
    Loc B = tr.available.empty() ? Loc{"main.theo", 2} : tr.available.back();
    std::vector<Op> alpha;
    auto mk = [](Op::K k, Loc l = Loc()) {
      Op o;
      o.k = k;
      o.loc = l;
      return o;
    };
    alpha.push_back(mk(Op::EXECUTE));
    alpha.push_back(mk(Op::SINGLE));
    alpha.push_back(mk(Op::STEP_ON));
    alpha.push_back(mk(Op::STEP_OFF));
    alpha.push_back(mk(Op::ENABLE, A));
    alpha.push_back(mk(Op::DISABLE, A));
    alpha.push_back(mk(Op::ENABLE, B));
    alpha.push_back(mk(Op::CLEAR));
    if (prop != "C05") alpha.push_back(mk(Op::RESET));
    size_t Asz = alpha.size();
    for (int len = 1; len <= L; len++) {
      unsigned long total = 1;
      for (int i = 0; i < len; i++) total *= Asz;
      for (unsigned long v = 0; v < total; v++, idx++) {
        if ((long)(idx % (unsigned long)nshards) != shard) continue;
        std::vector<Op> ops;
        unsigned long x = v;
        for (int i = 0; i < len; i++) {
          ops.push_back(alpha[x % Asz]);
          x /= Asz;
        }
        Result r;
        HistoryStats st;
        r.hash = fnv1a(&v, sizeof v, 1000 * pi + (unsigned)len);
        r.sample = history_json(files, "main.theo", ops);
        run.journal_case(r.sample);
        run_history(tr, ops, r, st);
        classify(st, r, prop);
        r.cls("enum:short-history");
        run.record(r);
        if (run.stop_enumeration()) return;
      }
    }
  }
}

// replay of a decoded case {files, main, history:[...]}
static bool parse_op(const std::string &s, Op &o) {
  auto loc = [&](const std::string &in) {
    size_t c = in.rfind(':');
    o.loc = {in.substr(0, c), atoi(in.substr(c + 1).c_str())};
  };
  if (s == "execute") o.k = Op::EXECUTE;
  else if (s == "executeSingle") o.k = Op::SINGLE;
  else if (s.rfind("executeSingle*", 0) == 0) {
    o.k = Op::SINGLE_N;
    o.n = atoi(s.substr(14).c_str());
  } else if (s == "stepping(on)") o.k = Op::STEP_ON;
  else if (s == "stepping(off)") o.k = Op::STEP_OFF;
  else if (s.rfind("enable(", 0) == 0) {
    o.k = Op::ENABLE;
    loc(s.substr(7, s.size() - 8));
  } else if (s.rfind("disable(", 0) == 0) {
    o.k = Op::DISABLE;
    loc(s.substr(8, s.size() - 9));
  } else if (s == "clear") o.k = Op::CLEAR;
  else if (s == "reset") o.k = Op::RESET;
  else if (s == "read") o.k = Op::READ;
  else if (s == "enable-all") o.k = Op::ENABLE_ALL;
  else if (s == "step-until-done") o.k = Op::UNTIL_DONE;
  else return false;
  return true;
}
static void json_dbg(const J &c, Result &r, const std::string &prop) {
  glue::Files files;
  std::string main;
  glue::files_from_json(c, files, main);
  Theo::CodegenResult cr = Theo::compile(files, main);
  if (!cr.generated_correctly) {
    r.fail("dbg:wellformed-source-rejected", "replayed source was rejected");
    return;
  }
  Trace tr;
  build_trace(cr.code, c.has("trace_steps") ? (size_t)c.at("trace_steps").i() : 1500, tr);
  std::vector<Op> ops;
  for (auto &e : c.at("history").a) {
    Op o;
    if (parse_op(e.s, o)) ops.push_back(o);
  }
  HistoryStats st;
  r.sample = c;
  run_history(tr, ops, r, st);
  classify(st, r, prop);
}

// resume-length sweep: execute() must stop at the first enabled site however many instructions it has to run
// first. A long-running fixed program is stepped k instructions by hand (every k in 0..1100), then a breakpoint on
// a late line is enabled and execute() resumes: a bounded-exhaustive sweep over the distance to the stop
static void sweep_resume_lengths(Runner &run, int shard, int nshards, const std::string &prop) {
  glue::Files files{{"main.theo", "x0 := 400;\nWHILE x0 != 0 DO\nx1 := x1 + 2;\nx0 := x0 - 1\nEND;\nx2 := x1;\nx3 := 7"}};
  Theo::CodegenResult cr = Theo::compile(files, "main.theo");
  if (!cr.generated_correctly) {
    Result r;
    r.harness_error = true;
    r.msg = "sweep program does not compile";
    run.record(r);
    return;
  }
  Trace tr;
  build_trace(cr.code, 6000, tr);
  for (int k = shard; k <= 1100; k += nshards) {
    std::vector<Op> ops;
    Op step;
    step.k = Op::SINGLE_N;
    step.n = k;
    if (k) ops.push_back(step);
    Op en;
    en.k = Op::ENABLE;
    en.loc = {"main.theo", 6};
    ops.push_back(en);
    Op ex;
    ex.k = Op::EXECUTE;
    ops.push_back(ex);
    ops.push_back(ex);
    Result r;
    HistoryStats st;
    r.sample = history_json(files, "main.theo", ops, tr.maxsteps);
    r.hash = fnv1a(&k, sizeof k, 0x5eed);
    run.journal_case(r.sample);
    run_history(tr, ops, r, st);
    classify(st, r, prop);
    r.cls("enum:resume-length-sweep");
    run.record(r);
    if (run.stop_enumeration()) return;
  }
}

#define DBG_PROP(ID)                                                                                                        \
  static void prop_##ID(Tape &t, Result &r) { setenv("VERIF_FAMILY", #ID, 0); prop_dbg(t, r, #ID); }                        \
  static void enum_##ID(Runner &run, int s, int n, const std::string &tier) { setenv("VERIF_FAMILY", #ID, 0); enum_dbg(run, s, n, tier, #ID); sweep_resume_lengths(run, s, n, #ID); } \
  static void json_##ID(const J &c, Result &r) { setenv("VERIF_FAMILY", #ID, 0); json_dbg(c, r, #ID); }                     \
  static Reg reg_##ID({#ID, 400, prop_##ID, enum_##ID, json_##ID});

DBG_PROP(C05)
DBG_PROP(C06)
DBG_PROP(C17)

VERIF_MAIN
