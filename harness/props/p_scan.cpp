// p_scan: C14 (token stream faithful to the text) and C15 (include resolution).
#include "../common/harness.hpp"
#include "../ref/ref_lexer.hpp"
#include "glue.hpp"

#include "Compiler/include/compiler.hpp"
#include "Compiler/include/scan.hpp"

using namespace verif;

using glue::kind_of;

static const char *errname(Theo::ParseError::Type t) {
  using E = Theo::ParseError;
  switch (t) {
    case E::MAIN_FILE_NOT_FOUND: return "MAIN_FILE_NOT_FOUND";
    case E::EXPECTED_FILENAME: return "EXPECTED_FILENAME";
    case E::FILE_NOT_FOUND: return "FILE_NOT_FOUND";
    case E::RECURSIVE_INCLUDE: return "RECURSIVE_INCLUDE";
    case E::UNKNOWN_TOKEN: return "UNKNOWN_TOKEN";
    default: return "OTHER";
  }
}

typedef std::map<std::string, std::string> Files;

static J files_json(const Files &files, const std::string &main) {
  J f = J::obj();
  for (auto &p : files) f.set(p.first, p.second);
  J c = J::obj();
  c.set("files", f);
  c.set("main", main);
  return c;
}
static uint64_t files_hash(const Files &files, const std::string &main) {
  uint64_t h = fnv1a(main);
  for (auto &p : files) {
    h = fnv1a(p.first, h) * 31;
    h = fnv1a(p.second, h) * 131;
  }
  return h;
}

static std::string tokstr(ref::K k, const std::string &text, const std::string &file, int line) {
  std::string t;
  J::esc(text, t);
  return std::string(ref::kname(k)) + t + "@" + file + ":" + std::to_string(line);
}

// ------------------------------------------------------------------ C14 oracle
// also used by C15 for the token part
static bool compare_tokens(const Files &files, const std::string &main, const Theo::ScanResult &sr,
                           const ref::ScanOut &ro, Result &r, const char *sigprefix) {
  size_t ntoks = sr.toks.size();
  if (ntoks == 0 || sr.toks.back().t != Theo::Token::T_EOF) {
    r.fail(std::string(sigprefix) + ":no-final-eof", "token stream does not end with an end-of-file token");
    return false;
  }
  size_t eofs = 0;
  for (auto &t : sr.toks)
    if (t.t == Theo::Token::T_EOF) eofs++;
  if (eofs != 1) {
    r.fail(std::string(sigprefix) + ":eof-count", "expected exactly one end-of-file token, got " + std::to_string(eofs));
    return false;
  }
  size_t limit = ro.first_malformed >= 0 ? (size_t)ro.first_malformed : ro.toks.size();
  if (ro.first_malformed < 0 && ntoks - 1 != ro.toks.size()) {
    // find first difference for the message below; length mismatch is a failure in itself
  }
  for (size_t i = 0; i < limit; i++) {
    if (i >= ntoks - 1) {
      r.fail(std::string(sigprefix) + ":missing-token",
             "implementation stream ends after " + std::to_string(ntoks - 1) + " tokens; reference token #" +
                 std::to_string(i) + " is " + tokstr(ro.toks[i].k, ro.toks[i].text, ro.toks[i].file, ro.toks[i].line));
      return false;
    }
    const Theo::Token &a = sr.toks[i];
    const ref::Tok &b = ro.toks[i];
    if (kind_of(a.t) != b.k || a.text != b.text || a.file != b.file || a.line != b.line) {
      const char *what = kind_of(a.t) != b.k ? "kind" : a.text != b.text ? "text" : a.file != b.file ? "file" : "line";
      r.fail(std::string(sigprefix) + ":token-" + what,
             "token #" + std::to_string(i) + ": implementation " + tokstr(kind_of(a.t), a.text, a.file, a.line) +
                 " reference " + tokstr(b.k, b.text, b.file, b.line));
      return false;
    }
  }
  if (ro.first_malformed < 0 && ntoks - 1 > ro.toks.size()) {
    const Theo::Token &a = sr.toks[ro.toks.size()];
    r.fail(std::string(sigprefix) + ":extra-token",
           "implementation has extra token #" + std::to_string(ro.toks.size()) + " " +
               tokstr(kind_of(a.t), a.text, a.file, a.line));
    return false;
  }
  (void)files;
  (void)main;
  return true;
}

static uint64_t stream_digest(const Theo::ScanResult &sr) {
  uint64_t h = 1469598103934665603ULL;
  for (auto &t : sr.toks) {
    int k = (int)t.t;
    h = fnv1a(&k, sizeof k, h);
    h = fnv1a(t.text, h);
    h = fnv1a(t.file, h);
    h = fnv1a(&t.line, sizeof t.line, h);
  }
  for (auto &e : sr.errors) {
    int k = (int)e.t;
    h = fnv1a(&k, sizeof k, h);
    h = fnv1a(e.file, h);
    h = fnv1a(&e.line, sizeof e.line, h);
  }
  return h;
}

static void judge_c14(const Files &files, const std::string &main, Result &r) {
  r.sample = files_json(files, main);
  r.hash = files_hash(files, main);
  ref::ScanOut ro = ref::scan(files, main);
  Theo::ScanResult sr = Theo::scan(files, main);
  r.digest = stream_digest(sr);
  if (!compare_tokens(files, main, sr, ro, r, "scan")) return;
  bool ref_malformed = false;
  for (auto &e : ro.errs)
    if (e.type == "EXPECTED_FILENAME") ref_malformed = true;
  if (ref_malformed) {
    bool found = false;
    for (auto &e : sr.errors)
      if (e.t == Theo::ParseError::EXPECTED_FILENAME) found = true;
    if (!found) r.fail("scan:malformed-include-unreported", "include without a quoted name produced no error");
  }
  // non-trivial: >=2 tokens of which one is a keyword / multi-word / template token, or >=2 lines, or an include
  size_t special = 0;
  int maxline = 1;
  bool has_inc = false;
  std::set<std::string> fs;
  for (auto &t : ro.toks) {
    if (t.k != ref::K::ID && t.k != ref::K::INT && t.k != ref::K::NV_ID) special++;
    maxline = std::max(maxline, t.line);
    fs.insert(t.file);
  }
  has_inc = fs.size() > 1 || !ro.errs.empty();
  r.nontrivial = (ro.toks.size() >= 2 && special >= 1) || (ro.toks.size() >= 2 && maxline >= 2) || has_inc;
  if (has_inc) r.cls("include");
  if (maxline >= 2) r.cls("multi-line");
  if (special) r.cls("keyword-or-template");
  for (auto &t : ro.toks) {
    if (t.k == ref::K::END_DEFINE && t.text.find(' ') != std::string::npos) {
      r.cls("two-word-enddefine");
      break;
    }
  }
  for (auto &t : ro.toks)
    if (t.k == ref::K::FNAME && t.text.find('\n') != std::string::npos) {
      r.cls("fname-spanning-lines");
      break;
    }
  for (auto &p : files)
    if (p.second.find('\0') != std::string::npos) {
      r.cls("nul-byte");
      break;
    }
}

static const char SIG_CHARS[] = {'a', 'E', 'N', 'D', ' ', '\n', '0', '1', ':', '=', '!', '<', '>', 'P', '$', '#', '"', '/'};

static const std::vector<std::string> &vocab() {
  static std::vector<std::string> v = [] {
    std::vector<std::string> v;
    for (auto &r : ref::rules())
      for (auto &s : r.spellings) v.push_back(s);
    for (const char *s : {"x", "x0", "x1", "foo", "_a9", "Endx", "do1", "IFF", "0", "7", "10", "007", "2147483647",
                          "$0", "$12", "#1", "#00", "\"f\"", "\"a b\"", "\"", "+", "-", "*", "!", "!=", "!= 1", "<",
                          ">", "<X>", "// c", "//", "/", "\t", "\r", "end  define", "END\nDEFINE", "END define",
                          "<Prog>", "<val>", "<Value>", "<Id>", "<INt>", "\"un\nterminated", "\x80", "\xff", "@"})
      v.push_back(s);
    v.push_back(std::string(1, '\0'));
    return v;
  }();
  return v;
}

static std::string gen_text(Tape &t, Result &r) {
  std::string s;
  if (t.chance(1, 40)) {  // line numbers beyond 16 bits
    r.cls("gen:more-than-65535-lines");
    s.assign((size_t)(65530 + t.pick(20)), '\n');
  }
  switch (t.weighted({3, 3, 4, 2})) {
    case 0: {  // significant characters
      r.cls("gen:significant-chars");
      int n = t.range(0, 40);
      std::string body;
      for (int i = 0; i < n; i++) body.push_back(SIG_CHARS[t.pick(sizeof SIG_CHARS)]);
      s += body;
      break;
    }
    case 1: {  // vocabulary joined by separators (or nothing)
      r.cls("gen:vocabulary");
      int n = t.range(0, 25);
      for (int i = 0; i < n; i++) {
        s += vocab()[t.pick((unsigned)vocab().size())];
        switch (t.weighted({4, 3, 2, 1, 1})) {
          case 0: s += " "; break;
          case 1: break;
          case 2: s += "\n"; break;
          case 3: s += "\t "; break;
          case 4: s += " // comment\n"; break;
        }
      }
      break;
    }
    case 2: {  // any byte
      r.cls("gen:raw-bytes");
      int n = t.range(0, 60);
      for (int i = 0; i < n; i++) s.push_back((char)t.byte());
      break;
    }
    case 3: {  // characters mostly from the significant set with some arbitrary bytes
      r.cls("gen:mixed");
      int n = t.range(0, 60);
      for (int i = 0; i < n; i++)
        s.push_back(t.chance(1, 8) ? (char)t.byte() : SIG_CHARS[t.pick(sizeof SIG_CHARS)]);
      break;
    }
  }
  return s;
}

static const std::string FNAMES[] = {"m", "a", "b", std::string("m\0x", 3), "dir/x.theo", "./a"};
// byte sequences editors and shells put at the start of a file; to the scanner they are ordinary bytes
static const std::string FILE_PREFIXES[] = {"\xEF\xBB\xBF", "\xFF\xFE", "\xFE\xFF", "#!", "\r\n", std::string("\0", 1)};

static void gen_files(Tape &t, Result &r, Files &files, std::string &main) {
  int nfiles = 1 + (int)t.weighted({5, 3, 2, 1});
  for (int i = 0; i < nfiles; i++) {
    std::string body;
    int parts = 1 + (int)t.pick(3);
    for (int p = 0; p < parts; p++) {
      if (nfiles > 1 || t.chance(1, 6)) {
        if (t.chance(1, 2)) {
          static const char *inc[] = {"include", "INCLUDE", "Include"};
          body += inc[t.pick(3)];
          switch (t.weighted({6, 1, 1, 1})) {
            case 0: body += " \""; body += FNAMES[t.pick(6)]; body += "\" "; break;
            case 1: body += "\""; body += FNAMES[t.pick(6)]; body += "\""; break;
            case 2: body += "\n\n\""; body += FNAMES[t.pick(6)]; body += "\"\n"; break;
            case 3: body += " "; break;  // malformed or glued to the next text
          }
        }
      }
      body += gen_text(t, r);
    }
    // a file may also end in a directive: the keyword alone (nothing may leak into the including file) or with its name
    if (nfiles > 1 && t.chance(1, 5)) {
      static const char *inc[] = {"include", "INCLUDE", "Include"};
      body += " ";
      body += inc[t.pick(3)];
      if (t.chance(1, 2)) {
        body += " \"";
        body += FNAMES[t.pick(6)];
        body += "\"";
      }
      r.cls("file-ends-in-directive");
    }
    // the last line of a file may be a comment without a line break - also one that looks like a directive
    if (t.chance(1, 8)) {
      body += t.chance(1, 2) ? " // include \"a\"" : " // x0 := 1";
      r.cls("file-ends-in-comment-without-newline");
    }
    if (t.chance(1, 12)) {
      body = FILE_PREFIXES[t.pick(6)] + body;
      r.cls("file-starts-with-BOM-like-bytes");
    }
    files[FNAMES[i]] = body;
  }
  // "a" and "./a" are two different names
  if (nfiles >= 2 && t.chance(1, 5)) {
    files["./a"] = gen_text(t, r);
    r.cls("names-a-and-./a");
  }
  main = t.chance(1, 20) ? "nomain" : "m";
}

static void prop_c14(Tape &t, Result &r) {
  Files files;
  std::string main;
  gen_files(t, r, files, main);
  judge_c14(files, main, r);
}

// exhaustive: all strings of length <= L over a 12-character alphabet
static void enum_c14(Runner &run, int shard, int nshards, const std::string &tier) {
  int L = tier == "thorough" ? 5 : 4;
  // alphabet: always space, newline, E N D; the other 7 rotate with VERIF_SEED through the 13 remaining
  std::vector<char> alpha = {' ', '\n', 'E', 'N', 'D'};
  std::vector<char> rest;
  for (char c : SIG_CHARS)
    if (std::find(alpha.begin(), alpha.end(), c) == alpha.end()) rest.push_back(c);
  int seed = env_int("VERIF_SEED", 1);
  for (int i = 0; i < 7; i++) alpha.push_back(rest[(size_t)((seed * 7 + i) % (int)rest.size())]);
  // de-duplicate (rotation can wrap)
  std::sort(alpha.begin(), alpha.end());
  alpha.erase(std::unique(alpha.begin(), alpha.end()), alpha.end());
  size_t A = alpha.size();
  unsigned long idx = 0;
  for (int len = 0; len <= L; len++) {
    unsigned long total = 1;
    for (int i = 0; i < len; i++) total *= A;
    for (unsigned long v = 0; v < total; v++, idx++) {
      if ((long)(idx % (unsigned long)nshards) != shard) continue;
      std::string s;
      unsigned long x = v;
      for (int i = 0; i < len; i++) {
        s.push_back(alpha[x % A]);
        x /= A;
      }
      Files files{{"m", s}};
      run.journal_case(files_json(files, "m"));
      Result r;
      judge_c14(files, "m", r);
      run.record(r);
      if (run.stop_enumeration()) return;
    }
  }
  // spelling table: every documented spelling alone, doubled, and followed by an identifier character
  if (shard == 0) {
    for (auto &rule : ref::rules())
      for (auto &sp : rule.spellings)
        for (const std::string &s : {sp, sp + sp, sp + "x", "x" + sp, sp + " " + sp, sp + "\n", sp + "1", sp + "_"}) {
          Files files{{"m", s}};
          Result r;
          judge_c14(files, "m", r);
          r.cls("spelling-table");
          run.record(r);
        }
  }
}

static void json_c14(const J &c, Result &r) {
  Files files;
  for (auto &p : c.at("files").o) files[p.first] = p.second.s;
  judge_c14(files, c.at("main").s, r);
}

static Reg reg_c14({"C14", 400, prop_c14, enum_c14, json_c14});

// ------------------------------------------------------------------ C15
struct Directive {
  int target;  // 0..nfiles-1 = file, nfiles = absent name "zz", nfiles+1 = malformed (no quoted name)
};

static std::string file_body(int self, const std::vector<Directive> &ds, int nfiles, const std::vector<std::string> &names) {
  std::string b = "m" + std::to_string(self) + "a ";
  int k = 0;
  for (auto &d : ds) {
    if (d.target < nfiles)
      b += "include \"" + names[(size_t)d.target] + "\" ";
    else if (d.target == nfiles)
      b += "include \"zz" + std::to_string(k) + "\" ";
    else
      b += "include ";
    k++;
    b += "m" + std::to_string(self) + (k == 1 ? "b " : "c ");
  }
  return b;
}

static void judge_c15(const Files &files, const std::string &main, bool through_compile, Result &r) {
  r.sample = files_json(files, main);
  r.hash = files_hash(files, main);
  ref::ScanOut ro = ref::scan(files, main);
  Theo::ScanResult sr = Theo::scan(files, main);
  r.digest = stream_digest(sr);
  if (!compare_tokens(files, main, sr, ro, r, "incl")) return;
  // errors as a multiset of (type,file) with the line inside the directive's extent
  std::vector<bool> used(sr.errors.size(), false);
  for (auto &e : ro.errs) {
    bool found = false;
    for (size_t i = 0; i < sr.errors.size(); i++) {
      if (used[i]) continue;
      auto &ie = sr.errors[i];
      if (e.type != errname(ie.t)) continue;
      if (e.file != ie.file) continue;
      if (!(ie.line >= e.line_lo && ie.line <= e.line)) continue;
      if (e.type == "FILE_NOT_FOUND" || e.type == "MAIN_FILE_NOT_FOUND")
        if (ie.file_request != e.request) continue;
      used[i] = true;
      found = true;
      break;
    }
    if (!found) {
      r.fail("incl:missing-error:" + e.type,
             "expected error " + e.type + " in file '" + e.file + "' line " + std::to_string(e.line) +
                 (e.request.empty() ? "" : " for '" + e.request + "'") + " was not reported");
      return;
    }
  }
  for (size_t i = 0; i < sr.errors.size(); i++) {
    if (used[i]) continue;
    std::string n = errname(sr.errors[i].t);
    if (n == "OTHER" || n == "UNKNOWN_TOKEN") continue;
    r.fail("incl:spurious-error:" + n, "unexpected error " + n + " in file '" + sr.errors[i].file + "' line " +
                                           std::to_string(sr.errors[i].line) + ": " + sr.errors[i].msg);
    return;
  }
  std::set<std::string> want;
  bool cyc = false, missing = false, malformed = false;
  for (auto &e : ro.errs) {
    if (e.type == "FILE_NOT_FOUND" || e.type == "MAIN_FILE_NOT_FOUND") want.insert(e.request);  // also the empty name
    if (e.type == "RECURSIVE_INCLUDE") cyc = true;
    if (e.type == "FILE_NOT_FOUND" || e.type == "MAIN_FILE_NOT_FOUND") missing = true;
    if (e.type == "EXPECTED_FILENAME") malformed = true;
  }
  if (through_compile) {
    Theo::CodegenResult cr = Theo::compile(files, main);
    std::set<std::string> got(cr.file_requests.begin(), cr.file_requests.end());
    if (got != want) {
      std::string g, w;
      for (auto &s : got) g += s + " ";
      for (auto &s : want) w += s + " ";
      r.fail("incl:file-requests", "file requests {" + g + "} differ from the absent names encountered {" + w + "}");
      return;
    }
    if (missing && cr.generated_correctly) {
      r.fail("incl:missing-accepted", "a missing file did not make the compilation incorrect");
      return;
    }
    r.cls("through-compile");
  }
  // diamond: some file's tokens appear in two separate runs
  std::map<std::string, int> runs;
  std::string prev;
  for (auto &t : ro.toks) {
    if (t.file != prev) runs[t.file]++;
    prev = t.file;
  }
  bool repeated = false;
  {
    // a file included more than once (sequentially or as a diamond): count its first marker token
    std::map<std::string, int> firsts;
    for (auto &t : ro.toks)
      if (t.text.size() > 1 && t.text.back() == 'a' && t.text[0] == 'm') firsts[t.text]++;
    for (auto &p : firsts)
      if (p.second > 1) repeated = true;
  }
  if (cyc) r.cls("cycle");
  if (missing) r.cls("missing-target");
  if (malformed) r.cls("malformed-directive");
  if (repeated) r.cls("repeated-or-diamond");
  if (!files.count(main)) r.cls("missing-main");
  r.nontrivial = cyc || missing || repeated;
}

static void enum_c15(Runner &run, int shard, int nshards, const std::string &tier) {
  int maxfiles = tier == "thorough" ? 4 : 3;
  std::vector<std::string> names = {"f0", "f1", "f2", "f3"};
  unsigned long idx = 0;
  for (int nfiles = 1; nfiles <= maxfiles; nfiles++) {
    int T = nfiles + 2;
    int per = 1 + T + T * T;  // directive configurations per file
    unsigned long total = 1;
    for (int i = 0; i < nfiles; i++) total *= (unsigned long)per;
    for (unsigned long v = 0; v < total; v++) {
      for (int mainsel = 0; mainsel < 2; mainsel++, idx++) {
        if ((long)(idx % (unsigned long)nshards) != shard) continue;
        Files files;
        unsigned long x = v;
        for (int f = 0; f < nfiles; f++) {
          int cfg = (int)(x % (unsigned long)per);
          x /= (unsigned long)per;
          std::vector<Directive> ds;
          if (cfg >= 1 && cfg < 1 + T)
            ds.push_back({cfg - 1});
          else if (cfg >= 1 + T) {
            int c2 = cfg - 1 - T;
            ds.push_back({c2 / T});
            ds.push_back({c2 % T});
          }
          files[names[(size_t)f]] = file_body(f, ds, nfiles, names);
        }
        std::string main = mainsel == 0 ? "f0" : "nomain";
        // compile is ~100x the cost of scan: sample it deterministically
        bool through_compile = (idx % 97) == 0;
        run.journal_case(files_json(files, main));
        Result r;
        judge_c15(files, main, through_compile, r);
        run.record(r);
        if (run.stop_enumeration()) return;
      }
    }
  }
}

static void prop_c15(Tape &t, Result &r) {
  int nfiles = t.range(1, 8);
  bool chain = t.chance(1, 10);  // a deep chain: more than 32 files open at once
  if (chain) nfiles = 33 + (int)t.pick(13);
  std::vector<std::string> names;
  bool nul_names = t.chance(1, 8);
  for (int i = 0; i < nfiles; i++)
    names.push_back(nul_names ? (i == 0 ? std::string("g") : std::string("g\0", 2) + std::to_string(i)) : "g" + std::to_string(i));
  if (nul_names) r.cls("names-agreeing-up-to-a-NUL");
  Files files;
  for (int f = 0; f < nfiles; f++) {
    int nd = (int)t.weighted({2, 4, 3, 2, 1});
    std::string b = "m" + std::to_string(f) + "a ";
    if (chain) {
      if (f + 1 < nfiles) b += "include \"" + names[(size_t)f + 1] + "\" ";
      nd = t.chance(1, 6) ? 1 : 0;
      r.cls("deep-chain(>32-files)");
    }
    for (int k = 0; k < nd; k++) {
      switch (t.weighted({10, 2, 1, 1})) {
        case 0: b += "include \"" + names[t.pick((unsigned)nfiles)] + "\" "; break;
        case 1: {  // an absent file; its name may be the empty string
          unsigned k = t.pick(4);
          b += k == 3 ? std::string("include \"\" ") : "include \"absent" + std::to_string(k) + "\" ";
          if (k == 3) r.cls("absent-file-with-empty-name");
          break;
        }
        case 2: b += "include "; break;
        case 3: b += "INCLUDE\n\"" + names[t.pick((unsigned)nfiles)] + "\"\n"; break;
      }
      // the last directive of a file may also be its last token(s)
      if (k + 1 == nd && t.chance(1, 4))
        r.cls("file-ends-in-directive");
      else
        b += "m" + std::to_string(f) + "k" + std::to_string(k) + " ";
    }
    if (t.chance(1, 8)) {  // a commented-out directive on the last line, without a line break
      b += "// include \"" + (t.chance(1, 2) ? names[t.pick((unsigned)nfiles)] : std::string("absent9")) + "\"";
      r.cls("file-ends-in-comment-without-newline");
    }
    files[names[(size_t)f]] = b;
  }
  std::string main = t.chance(1, 12) ? (t.chance(1, 3) ? "" : "absentmain") : names[0];
  judge_c15(files, main, t.chance(1, 3), r);
}

static void json_c15(const J &c, Result &r) {
  Files files;
  for (auto &p : c.at("files").o) files[p.first] = p.second.s;
  judge_c15(files, c.at("main").s, true, r);
}

static Reg reg_c15({"C15", 200, prop_c15, enum_c15, json_c15});

VERIF_MAIN
