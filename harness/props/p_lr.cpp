// p_lr: C13 - generated LR(1) parsers recognise exactly their grammar.
#include "../common/harness.hpp"
#include "../ref/ref_cfg.hpp"
#include "Compiler/include/ParserGenerator/lrparser.hpp"

using namespace verif;
using Theo::Grammar;

struct GCase {
  int nnt = 1, nterm = 1;
  std::vector<rcfg::Rule> rules;  // symbol ids: terminals 1..nterm (0 is the end marker)
  bool prefix = false;
};

static std::string sym_str(const rcfg::Sym &s) { return s.term ? std::string(1, (char)('a' + s.id - 1)) : std::string(1, (char)('A' + s.id)); }
static std::string grammar_str(const GCase &c) {
  std::string s;
  for (auto &r : c.rules) {
    s += std::string(1, (char)('A' + r.lhs)) + " ->";
    if (r.rhs.empty()) s += " eps";
    for (auto &x : r.rhs) s += " " + sym_str(x);
    s += "; ";
  }
  return s;
}

// unit chains: A0 -> A1 -> ... -> Ak, Ak -> eps | A0 t (information has to travel the whole chain, in both
// directions, before FIRST sets and nullability reach their fixpoint), plus a few random extra rules
static GCase decode_chain(Tape &t) {
  GCase c;
  c.prefix = t.chance(1, 2);
  int k = 3 + (int)t.pick(8);
  c.nnt = k + 1;
  c.nterm = 1 + (int)t.pick(2);
  rcfg::Grammar g;
  g.nnt = c.nnt;
  bool ascending = t.chance(1, 2);
  auto nt = [&](int i) { return ascending ? i : (i == 0 ? 0 : k + 1 - i); };  // the start symbol stays non-terminal 0
  for (int i = 0; i < k; i++) {
    std::vector<rcfg::Sym> rhs = {rcfg::N(nt(i + 1))};
    if (t.chance(1, 5)) rhs.push_back(rcfg::T(1 + (int)t.pick((unsigned)c.nterm)));
    g.add(nt(i), rhs);
  }
  if (t.chance(3, 4)) g.add(nt(k), {});
  g.add(nt(k), {rcfg::N(nt(0)), rcfg::T(1 + (int)t.pick((unsigned)c.nterm))});
  int extra = (int)t.pick(3);
  for (int i = 0; i < extra; i++) {
    std::vector<rcfg::Sym> rhs;
    int len = (int)t.pick(3);
    for (int j = 0; j < len; j++) rhs.push_back(t.chance(1, 2) ? rcfg::T(1 + (int)t.pick((unsigned)c.nterm)) : rcfg::N((int)t.pick((unsigned)c.nnt)));
    g.add((int)t.pick((unsigned)c.nnt), rhs);
  }
  c.rules = g.rules;
  return c;
}

static GCase decode(Tape &t) {
  if (t.chance(1, 8)) return decode_chain(t);
  GCase c;
  c.prefix = t.chance(1, 2);
  c.nnt = 1 + (int)t.weighted({3, 4, 3, 2});
  c.nterm = 1 + (int)t.weighted({3, 4, 3});
  int nrules = 1 + (int)t.pick(7);
  rcfg::Grammar g;
  g.nnt = c.nnt;
  for (int i = 0; i < nrules; i++) {
    int lhs = i == 0 ? 0 : (int)t.pick((unsigned)c.nnt);
    int len = (int)t.weighted({2, 4, 4, 3});
    std::vector<rcfg::Sym> rhs;
    for (int k = 0; k < len; k++) {
      if (t.chance(1, 2))
        rhs.push_back(rcfg::T(1 + (int)t.pick((unsigned)c.nterm)));
      else
        rhs.push_back(rcfg::N((int)t.pick((unsigned)c.nnt)));
    }
    g.add(lhs, rhs);
  }
  c.rules = g.rules;
  return c;
}

static void judge_c13(const GCase &c, Result &r, int L) {
  {
    J j = J::obj();
    j.set("grammar", grammar_str(c));
    j.set("start", "A");
    j.set("terminals", c.nterm);
    j.set("mode", c.prefix ? "prefix" : "full");
    r.sample = j;
    r.hash = fnv1a(j.dump());
  }
  rcfg::Grammar rg;
  rg.nnt = c.nnt;
  rg.rules = c.rules;
  // build the implementation's grammar: action = bracketed tree with children in source order, obtained by
  // reversing the popped vector (the documented order is last symbol first)
  typedef std::string Sem;
  Theo::SemanticGrammar<Sem> G;
  std::vector<Grammar::Symbol> nts;
  for (int i = 0; i < c.nnt; i++) nts.push_back(G.createNonTerminal());
  std::vector<int> action_calls(c.rules.size(), 0);
  bool with_explicit_eps = false;
  for (size_t ri = 0; ri < c.rules.size(); ri++) {
    const rcfg::Rule &rule = c.rules[ri];
    std::vector<Grammar::Symbol> rhs;
    for (auto &s : rule.rhs) rhs.push_back(s.term ? Grammar::Symbol::Terminal((unsigned)s.id) : nts[(size_t)s.id]);
    // explicit epsilon symbols anywhere in a right side (also several in a row) must be ignored: "A -> eps eps" is
    // an epsilon rule, "A -> a eps eps B" is "A -> a B"
    unsigned eh = (unsigned)(r.hash >> (ri % 16)) + (unsigned)ri * 7u;
    if (rhs.empty() && (ri % 2)) {
      rhs.push_back(Grammar::Symbol::Epsilon());
      if (eh % 3 == 0) rhs.push_back(Grammar::Symbol::Epsilon());
      with_explicit_eps = true;
    } else if (eh % 4 == 0) {
      size_t at = (eh / 4) % (rhs.size() + 1);
      size_t n = 1 + (eh / 64) % 3;
      rhs.insert(rhs.begin() + (long)at, n, Grammar::Symbol::Epsilon());
      with_explicit_eps = true;
    }
    std::string name = std::string(1, (char)('A' + rule.lhs)) + std::to_string(rule.alt);
    int *calls = &action_calls[ri];
    G.add(std::make_pair(nts[(size_t)rule.lhs], rhs), [name, calls](std::vector<Sem> popped) -> Sem {
      (*calls)++;
      std::string s = "(" + name;
      for (auto it = popped.rbegin(); it != popped.rend(); ++it) s += " " + *it;
      return s + ")";
    });
  }
  // FIRST sets against the textbook definition (on a copy; the parser computes its own)
  {
    Theo::SemanticGrammar<Sem> G2 = G;
    // the parser generator adds S' and a rule mentioning the end marker before computing; mirror only the computation
    G2.calculateFirstSets();
    auto F = rcfg::first_sets(rg);
    for (int A = 0; A < c.nnt; A++) {
      std::set<int> got;
      auto it = G2.first_sets.find(nts[(size_t)A]);
      if (it != G2.first_sets.end())
        for (auto &s : it->second) got.insert(s.t == Grammar::Symbol::EPSILON ? -1 : (int)s.index);
      if (got != F[(size_t)A]) {
        auto show = [](const std::set<int> &x) {
          std::string s = "{";
          for (int v : x) s += (v < 0 ? std::string("eps") : std::string(1, (char)('a' + v - 1))) + " ";
          return s + "}";
        };
        r.fail("lr:first-set", "FIRST(" + std::string(1, (char)('A' + A)) + ") is " + show(got) + ", textbook " + show(F[(size_t)A]));
        return;
      }
    }
    std::vector<Grammar::Symbol> probe;
    if (!c.rules.empty())
      for (auto &s : c.rules[0].rhs) probe.push_back(s.term ? Grammar::Symbol::Terminal((unsigned)s.id) : nts[(size_t)s.id]);
    // FIRST of a string: rule 0's right side
    std::set<int> want;
    bool all_eps = true;
    for (auto &s : c.rules[0].rhs) {
      if (s.term) {
        want.insert(s.id);
        all_eps = false;
        break;
      }
      for (int x : F[(size_t)s.id])
        if (x != -1) want.insert(x);
      if (!F[(size_t)s.id].count(-1)) {
        all_eps = false;
        break;
      }
    }
    if (all_eps) want.insert(-1);
    std::set<int> got;
    for (auto &s : G2.first(probe)) got.insert(s.t == Grammar::Symbol::EPSILON ? -1 : (int)s.index);
    if (got != want) {
      r.fail("lr:first-of-string", "FIRST of the right side of rule 0 differs from the textbook definition");
      return;
    }
  }
  typedef Theo::LRParser<Sem, int> Parser;
  Parser parser(G, c.prefix, [](int tok) { return Grammar::Symbol::Terminal((unsigned)tok); },
                [](int tok) { return tok == 0 ? std::string("$") : std::string(1, (char)('a' + tok - 1)); }, nts[0],
                Grammar::Symbol::Terminal(0));
  auto conflicts = parser.generateParseTables();
  bool conflict_free = conflicts.empty();
  // largest terminal index the grammar uses
  int maxt = 0;
  for (auto &rule : c.rules)
    for (auto &s : rule.rhs)
      if (s.term) maxt = std::max(maxt, s.id);
  // all strings up to length L over 1..maxt
  bool ambiguous = false, any_long = false, has_eps_rule = false;
  for (auto &rule : c.rules)
    if (rule.rhs.empty()) has_eps_rule = true;
  std::vector<int> w;
  long nstrings = 0, accepted = 0;
  std::function<bool(int)> rec = [&](int len) -> bool {
    // judge w
    nstrings++;
    {
      std::vector<int> ww = w;
      int n = (int)ww.size();
      rcfg::Chart ch(rg, n, [&](int id, int pos) { return ww[(size_t)pos] == id; });
      if (ch.count(0, 0, n) >= 2) ambiguous = true;
      if (conflict_free) {
        // expected verdict
        bool expect = false;
        std::string expect_val;
        int nprefixes = 0;
        if (!c.prefix) {
          expect = ch.count(0, 0, n) >= 1;
          if (ch.count(0, 0, n) >= 2) {
            r.fail("lr:ambiguous-without-conflict", "string '" + [&] {
              std::string s;
              for (int x : ww) s.push_back((char)('a' + x - 1));
              return s;
            }() + "' has two derivations, yet table generation reported no conflict");
            return false;
          }
        } else {
          for (int m = 0; m <= n; m++)
            if (ch.count(0, 0, m) >= 1) {
              nprefixes++;
              expect = true;
            }
        }
        std::vector<int> input = ww;
        input.push_back(0);
        for (auto &x : action_calls) x = 0;
        auto res = parser.parse(input);
        bool got = res.t == Parser::ParseResult::ACCEPT;
        std::string ws;
        for (int x : ww) ws.push_back((char)('a' + x - 1));
        if (got != expect) {
          r.fail(got ? "lr:accepts-non-member" : "lr:rejects-member",
                 std::string("input '") + ws + "$' is " + (got ? "accepted" : "rejected") + " but " +
                     (c.prefix ? (expect ? "a prefix of it is in the language" : "no prefix of it is in the language")
                               : (expect ? "it is in the language" : "it is not in the language")));
          return false;
        }
        if (got) {
          accepted++;
          if ((int)ww.size() >= 4) any_long = true;
          // value = fold of the unique derivation tree
          int m = n;
          bool unique = true;
          if (c.prefix) {
            if (nprefixes != 1) unique = false;  // not prefix-free: which prefix is folded is not specified
            for (int q = 0; q <= n; q++)
              if (ch.count(0, 0, q) >= 1) {
                m = q;
                break;
              }
            if (ch.count(0, 0, m) != 1) unique = false;
          }
          if (unique) {
            rcfg::Tree tr = ch.tree(0, 0, m);
            std::vector<int> expect_calls(c.rules.size(), 0);
            std::function<std::string(const rcfg::Tree &)> fold = [&](const rcfg::Tree &tn) -> std::string {
              if (tn.rule < 0) return std::string(1, (char)('a' + ww[(size_t)tn.pos] - 1));
              const rcfg::Rule &rule = rg.rules[(size_t)tn.rule];
              expect_calls[(size_t)tn.rule]++;
              std::string s = "(" + std::string(1, (char)('A' + rule.lhs)) + std::to_string(rule.alt);
              for (auto &k : tn.kids) s += " " + fold(k);
              return s + ")";
            };
            expect_val = fold(tr);
            if (res.st != expect_val) {
              r.fail("lr:wrong-value", "input '" + ws + "$': returned value " + res.st + ", fold of the derivation tree " + expect_val);
              return false;
            }
            if (action_calls != expect_calls) {
              r.fail("lr:action-count", "input '" + ws + "$': the rules' actions were not applied exactly once per node of the derivation tree");
              return false;
            }
          }
        }
      }
    }
    if (len == L) return true;
    for (int a = 1; a <= maxt; a++) {
      w.push_back(a);
      bool ok = rec(len + 1);
      w.pop_back();
      if (!ok) return false;
    }
    return true;
  };
  if (!rec(0)) return;
  if (ambiguous && conflict_free) {
    r.fail("lr:ambiguous-without-conflict", "the grammar is ambiguous (a string up to length " + std::to_string(L) +
                                                " has two derivations), yet table generation reported no conflict");
    return;
  }
  if (conflict_free) r.cls(c.prefix ? "conflict-free:prefix-mode" : "conflict-free:full-mode");
  if (ambiguous) r.cls("ambiguous");
  if (!conflict_free && !ambiguous) r.cls("conflicting-but-not-shown-ambiguous");
  if (has_eps_rule) r.cls("epsilon-rule");
  if (with_explicit_eps) r.cls("explicit-epsilon-symbols");
  if (c.nnt > 4) r.cls("unit-chain-grammar");
  if (conflict_free && accepted) r.cls("accepts-some-string");
  r.nontrivial = (conflict_free && accepted > 0 && (any_long || has_eps_rule)) || ambiguous;
}

static void prop_c13(Tape &t, Result &r) {
  GCase c = decode(t);
  int L = env_int("VERIF_C13_LEN", 5);
  judge_c13(c, r, L);
}
static Reg reg_c13({"C13", 80, prop_c13, nullptr, nullptr});

VERIF_MAIN
