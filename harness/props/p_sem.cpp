// p_sem: C01 (reference semantics), C07 (stepping / variable views), C16 (no recursion, LOOP
// programs halt), C19 (frame accounting), C20 (arithmetic defined, values natural).
#include "../common/harness.hpp"
#include "../common/gen_program.hpp"
#include "../ref/ref_interp.hpp"
#include "glue.hpp"

using namespace verif;

struct Case {
  gp::Program prog;
  gp::Layout layout;
  gp::Features feat;
  std::set<std::string> gen_classes;
  int nfiles = 1;
};

static void decode_case(Tape &t, gp::GenCfg cfg, bool canonical, Case &c) {
  // high-level choices first; the long layout choice stream is derived from a seed (see tape.hpp)
  c.nfiles = 1 + (int)t.weighted({5, 3, 2, 1});
  std::vector<uint8_t> lbytes = derive_bytes(t.u32(), 4096);
  Tape lt(lbytes);
  gp::Gen g(t, cfg);
  c.prog = g.generate();
  gp::normalise(c.prog);
  c.gen_classes = g.classes;
  c.layout = canonical ? gp::layout_canonical(c.prog, lt, c.nfiles) : gp::layout_free(c.prog, lt, c.nfiles);
  if (c.layout.blank_includes) c.gen_classes.insert("layout:include-of-a-file-without-tokens");
  if (c.layout.body_includes) c.gen_classes.insert("layout:include-inside-a-macro-body");
  if (c.layout.main.rfind("__", 0) == 0) c.gen_classes.insert("layout:file-names-starting-with-__");
  if (c.layout.main.rfind("Cc/", 0) == 0) c.gen_classes.insert("layout:file-names-differing-in-case-only");
  c.feat = gp::features(c.prog);
}

static void add_feature_classes(const Case &c, Result &r) {
  const gp::Features &f = c.feat;
  if (f.call_in_loop) r.cls("call-in-loop");
  if (f.nested_call_arg) r.cls("nested-call-argument");
  if (f.jump_into_loop) r.cls("jump-into-loop-body");
  if (f.jump_out_of_loop) r.cls("jump-out-of-loop");
  if (f.backward_jump) r.cls("backward-jump");
  if (f.stop_in_callee) r.cls("stop-in-callee");
  if (f.macro_in_own_slot) r.cls("macro-nested-in-own-slot");
  if (c.layout.files.size() >= 2) r.cls("files>=2");
  if (c.prog.macros) r.cls("user-macros");
  for (auto &g : c.gen_classes) r.cls(g);
}

static bool user_named(const std::string &n) {
  // names no user can write: loop counters, macro temporaries, (temporaries are not in stack maps)
  if (n.empty()) return false;
  if (!(isalpha((unsigned char)n[0]) || n[0] == '_')) return false;
  for (char ch : n)
    if (!(isalnum((unsigned char)ch) || ch == '_')) return false;
  return true;
}

// compare VM activations with the reference stack; returns false and fills r on mismatch
static bool compare_state(Theo::VM &vm, const Theo::Program &code, ri::Interp &in, Result &r, const char *sigp,
                          const std::string &where) {
  auto &acts = vm.getActivations();
  auto frames = vm.verif_frames();
  if (acts.size() != in.stack.size()) {
    r.fail(std::string(sigp) + ":activation-depth",
           where + "VM has " + std::to_string(acts.size()) + " live activations, reference has " +
               std::to_string(in.stack.size()));
    return false;
  }
  for (size_t i = 0; i < acts.size(); i++) {
    const ri::Frame &rf = in.stack[i];
    int di = frames[i].debug_info;
    if (di < 0 || (size_t)di >= code.stack_maps.size()) {
      r.fail(std::string(sigp) + ":stack-map-index", where + "activation " + std::to_string(i) + " has stack map index " + std::to_string(di));
      return false;
    }
    // (the root activation's label is an implementation detail; callee activations are labelled with the program's name)
    if (i > 0 && code.stack_maps[(size_t)di].func_name != rf.name) {
      r.fail(std::string(sigp) + ":activation-name", where + "activation " + std::to_string(i) + " is '" +
                                                         code.stack_maps[(size_t)di].func_name + "', reference '" + rf.name + "'");
      return false;
    }
    auto view = acts[i].getActivationVariables();
    std::set<std::string> expect =
        rf.routine < 0 ? gp::main_vars(in.p) : gp::routine_vars(in.p.defs[(size_t)rf.routine]);
    for (auto &name : expect) {
      auto it = view.find(name);
      long long want = 0;
      auto rv = rf.vars.find(name);
      if (rv != rf.vars.end()) want = rv->second;
      if (it == view.end()) {
        // the implicit result variable x0 of a routine that never mentions it need not be listed (it is 0 by definition)
        if (rf.routine >= 0 && !in.p.defs[(size_t)rf.routine].has_out && name == "x0" && want == 0) {
          std::set<std::string> mentioned(in.p.defs[(size_t)rf.routine].params.begin(), in.p.defs[(size_t)rf.routine].params.end());
          gp::stmt_vars(in.p.defs[(size_t)rf.routine].body, mentioned);
          if (!mentioned.count("x0")) continue;
        }
        r.fail(std::string(sigp) + ":variable-missing",
               where + "activation " + std::to_string(i) + " (" + rf.name + ") does not list variable '" + name + "'");
        return false;
      }
      if ((long long)it->second != want) {
        r.fail(std::string(sigp) + ":wrong-value", where + "activation " + std::to_string(i) + " (" + rf.name + "): " + name + " = " +
                                                       std::to_string(it->second) + ", reference " + std::to_string(want));
        return false;
      }
    }
    for (auto &e : view) {
      if (!user_named(e.first) || expect.count(e.first)) continue;
      if (e.second != 0) {
        r.fail(std::string(sigp) + ":phantom-variable", where + "activation " + std::to_string(i) + " lists user-named variable '" +
                                                            e.first + "' = " + std::to_string(e.second) + " that the routine never mentions");
        return false;
      }
    }
  }
  return true;
}

static J case_json(const Case &c) {
  J j = glue::files_json(c.layout.files, c.layout.main);
  return j;
}

static bool compile_case(const Case &c, Theo::CodegenResult &cr, Result &r, const char *sigp) {
  cr = Theo::compile(c.layout.files, c.layout.main);
  if (!cr.generated_correctly) {
    std::string m = cr.errors.empty() ? "(no error)" : cr.errors[0].message + " @" + cr.errors[0].file + ":" + std::to_string(cr.errors[0].line);
    r.fail(std::string(sigp) + ":wellformed-source-rejected", "generated well-formed source was rejected: " + m);
    return false;
  }
  return true;
}

// ------------------------------------------------------------------------------------ C01
static void prop_c01(Tape &t, Result &r) {
  gp::GenCfg cfg;
  cfg.user_macros = t.chance(1, 2);
  cfg.force_call_in_loop = t.chance(1, 6);
  cfg.arith_heavy = cfg.user_macros && t.chance(1, 3);
  cfg.wide_frame = !cfg.user_macros && t.chance(1, 12);
  Case c;
  decode_case(t, cfg, false, c);
  r.sample = case_json(c);
  r.hash = glue::files_hash(c.layout.files, c.layout.main);
  add_feature_classes(c, r);
  Theo::CodegenResult cr;
  if (!compile_case(c, cr, r, "sem")) return;
  ri::Interp in(c.prog, nullptr);
  ri::Interp::Status st = in.execute();
  if (st == ri::Interp::BIG) {
    r.discard = true;
    r.cls("ref:big-values(->C20)");
    return;
  }
  Theo::VM vm(cr.code);
  if (st == ri::Interp::DIVERGED) {
    r.cls("ref:diverged");
    long long n = in.ops - 1;
    for (long long i = 0; i < n && !vm.isDone(); i++) vm.executeSingle();
    if (vm.isDone()) {
      r.fail("sem:halts-but-reference-diverges",
             "reference needs more than " + std::to_string(n) + " micro-steps, the VM finished within as many instructions");
      return;
    }
    r.nontrivial = false;
    return;
  }
  r.cls("ref:terminated");
  // oracle self-check: for jump-free programs a second, structurally recursive interpreter must agree with the
  // flat reference interpreter; a disagreement is a harness error (exit 2), never a violation
  if (!c.feat.has_goto) {
    ri::BigStep bs(c.prog);
    if (bs.run()) {
      std::string why;
      if (!ri::same_state(in.stack, bs.stack, why)) {
        r.harness_error = true;
        r.msg = "the two reference interpreters disagree on a jump-free program: " + why;
        return;
      }
      r.cls("oracle-self-check:agreed");
    }
  }
  long long budget = 40 * in.work + 4000;
  long long i = 0;
  for (; i < budget && !vm.isDone(); i++) vm.executeSingle();
  if (!vm.isDone()) {
    r.fail("sem:vm-does-not-halt", "reference finished after " + std::to_string(in.ops) + " micro-steps (work " + std::to_string(in.work) +
                                       "), VM still running after " + std::to_string(budget) + " instructions");
    return;
  }
  if (!compare_state(vm, cr.code, in, r, "sem", "at the end: ")) return;
  r.nontrivial = in.loop_iters >= 1 || in.calls >= 1 || in.jumps_taken >= 1;
  if (in.calls) r.cls("run:calls");
  if (in.loop_iters) r.cls("run:loop-iterations");
  if (in.jumps_taken) r.cls("run:jumps-taken");
  if (in.stack.size() > 1) r.cls("run:stopped-inside-callee");
}
static Reg reg_c01({"C01", 500, prop_c01, nullptr, nullptr});

// ------------------------------------------------------------------------------------ C10 (semantic level)
// programs that use the temporary-using library macros (IF-THEN-ELSE, SWAP, REPEAT), nested in their
// own slots and repeated; the oracle is C01's (native meaning of the constructs)
static int count_temp_macros(const std::vector<gp::Stmt> &b) {
  int n = 0;
  for (auto &s : b) {
    if (s.k == gp::Stmt::M_IFELSE || s.k == gp::Stmt::M_SWAP || s.k == gp::Stmt::M_REPEAT) n++;
    n += count_temp_macros(s.body) + count_temp_macros(s.body2);
  }
  return n;
}
static void prop_c10(Tape &t, Result &r) {
  gp::GenCfg cfg;
  cfg.user_macros = true;
  cfg.max_stmts = 30;
  Case c;
  decode_case(t, cfg, false, c);
  r.sample = case_json(c);
  r.hash = glue::files_hash(c.layout.files, c.layout.main);
  add_feature_classes(c, r);
  int uses = count_temp_macros(c.prog.main);
  for (auto &d : c.prog.defs) uses += count_temp_macros(d.body);
  Theo::CodegenResult cr;
  if (!compile_case(c, cr, r, "hygiene")) return;
  ri::Interp in(c.prog, nullptr);
  ri::Interp::Status st = in.execute();
  if (st != ri::Interp::DONE) {
    r.discard = true;
    r.cls(st == ri::Interp::BIG ? "ref:big-values" : "ref:diverged");
    return;
  }
  Theo::VM vm(cr.code);
  long long budget = 40 * in.work + 4000;
  for (long long i = 0; i < budget && !vm.isDone(); i++) vm.executeSingle();
  if (!vm.isDone()) {
    r.fail("hygiene:vm-does-not-halt", "reference finished, VM still running after " + std::to_string(budget) + " instructions");
    return;
  }
  if (!compare_state(vm, cr.code, in, r, "hygiene", "at the end: ")) return;
  if (uses >= 2) r.cls("temporary-using-macros>=2");
  r.nontrivial = uses >= 2 && (in.loop_iters >= 1 || in.calls >= 1);
}
static Reg reg_c10({"C10", 500, prop_c10, nullptr, nullptr});

// ------------------------------------------------------------------------------------ C07
struct AbortRun {};

static void prop_c07(Tape &t, Result &r) {
  gp::GenCfg cfg;
  cfg.user_macros = false;
  cfg.max_stmts = 30;
  Case c;
  decode_case(t, cfg, true, c);
  r.sample = case_json(c);
  r.hash = glue::files_hash(c.layout.files, c.layout.main);
  add_feature_classes(c, r);
  Theo::CodegenResult cr;
  if (!compile_case(c, cr, r, "step")) return;
  ri::Interp in(c.prog, &c.layout);
  in.max_ops = 3000;
  Theo::VM vm(cr.code);
  vm.setSteppingMode(true);
  long stops = 0, loop_exits = 0, callee_ends = 0, headers = 0;
  in.on_site = [&](long tok, int kind) {
    const auto &loc = c.layout.tokpos[(size_t)tok];
    bool done_before = vm.isDone();
    vm.execute();
    int ip1 = vm.verif_ip();
    // execute() returns right after a site or at HALT. A site directly before HALT leaves isDone() true
    // although the stop did happen, so: not done before + the instruction before ip is a site.
    bool at_site = !done_before && ip1 > 0 && cr.code.line_info.count(ip1 - 1) > 0;
    std::string where = "stop #" + std::to_string(stops) + " (expected " + loc.first + ":" + std::to_string(loc.second) + "): ";
    if (!at_site) {
      r.fail("step:missing-stop", where + "the VM ran to the end instead of stopping there");
      throw AbortRun();
    }
    Theo::BreakPoint bp = vm.getCurrentBreak();
    if (bp.file != loc.first || bp.line != loc.second) {
      r.fail("step:wrong-location", where + "VM stopped at " + bp.file + ":" + std::to_string(bp.line));
      throw AbortRun();
    }
    if (!compare_state(vm, cr.code, in, r, "step", where)) throw AbortRun();
    stops++;
    if (kind == 1) headers++;
    if (kind == 2) loop_exits++;
    if (kind == 3) callee_ends++;
  };
  ri::Interp::Status st;
  try {
    st = in.execute();
  } catch (AbortRun &) {
    return;
  }
  if (st == ri::Interp::DONE) {
    bool done_before = vm.isDone();
    vm.execute();
    int ip1 = vm.verif_ip();
    if (!done_before && ip1 > 0 && cr.code.line_info.count(ip1 - 1) > 0) {
      Theo::BreakPoint bp = vm.getCurrentBreak();
      r.fail("step:extra-stop", "after the last expected stop (#" + std::to_string(stops) + ") the VM stopped again at " + bp.file + ":" +
                                    std::to_string(bp.line));
      return;
    }
    if (!vm.isDone()) {
      r.fail("step:not-done", "after the last stop execute() returned but the VM is not at the end of the program");
      return;
    }
    if (!compare_state(vm, cr.code, in, r, "step", "at the end: ")) return;
    r.cls("ref:terminated");
  } else {
    r.cls(st == ri::Interp::BIG ? "ref:big-values(prefix compared)" : "ref:diverged(prefix compared)");
  }
  if (loop_exits) r.cls("stops:loop-exit");
  if (callee_ends) r.cls("stops:callee-END");
  if (headers) r.cls("stops:header");
  r.nontrivial = stops >= 6 && loop_exits >= 1 && callee_ends >= 1;
}
static Reg reg_c07({"C07", 500, prop_c07, nullptr, nullptr});

// ------------------------------------------------------------------------------------ C19
static bool frames_ok(Theo::VM &vm, std::string &why) {
  auto fr = vm.verif_frames();
  long expect = 0;
  for (size_t i = 0; i < fr.size(); i++) {
    if (fr[i].data_start != expect) {
      why = "frame " + std::to_string(i) + " starts at word " + std::to_string(fr[i].data_start) + ", expected " + std::to_string(expect) +
            " (frames must be contiguous in call order)";
      return false;
    }
    if (fr[i].seg_size < 0) {
      why = "frame " + std::to_string(i) + " has negative size";
      return false;
    }
    expect += fr[i].seg_size;
  }
  if ((long)vm.verif_data().size() != expect) {
    why = "data memory holds " + std::to_string(vm.verif_data().size()) + " words, live frames account for " + std::to_string(expect);
    return false;
  }
  return true;
}

static void prop_c19(Tape &t, Result &r) {
  long reset_at = t.chance(1, 3) ? (long)t.pick(400) : -1;  // high-level choice first (see tape.hpp)
  gp::GenCfg cfg;
  cfg.user_macros = t.chance(1, 4);
  cfg.force_call_in_loop = t.chance(1, 2);
  cfg.wide_frame = !cfg.user_macros && t.chance(1, 12);
  Case c;
  decode_case(t, cfg, false, c);
  r.sample = case_json(c);
  r.hash = glue::files_hash(c.layout.files, c.layout.main);
  add_feature_classes(c, r);
  Theo::CodegenResult cr;
  if (!compile_case(c, cr, r, "mem")) return;
  Theo::VM vm(cr.code);
  long returns = 0, maxdepth = 0;
  size_t maxwords = 0;
  size_t prev_depth = 0;
  std::string why;
  // "every point of every execution" includes executions that follow a reset: one case in three resets the
  // machine once at a position drawn from the tape (often inside a callee) and keeps checking
  bool did_reset = false;
  for (long i = 0; i < 30000 && !vm.isDone(); i++) {
    if (i == reset_at) {
      if (vm.getActivations().size() >= 2) r.cls("reset-inside-callee");
      vm.reset();
      did_reset = true;
      prev_depth = 0;
      if (!frames_ok(vm, why)) {
        r.fail("mem:frame-accounting", "right after reset() at instruction " + std::to_string(i) + ": " + why);
        return;
      }
    }
    vm.executeSingle();
    size_t d = vm.getActivations().size();
    if (d < prev_depth) returns++;
    prev_depth = d;
    maxdepth = std::max<long>(maxdepth, (long)d);
    maxwords = std::max(maxwords, vm.verif_data().size());
    if (!frames_ok(vm, why)) {
      r.fail("mem:frame-accounting", "after instruction " + std::to_string(i) + " (" + std::to_string(returns) + " returns so far): " + why);
      return;
    }
  }
  if (vm.isDone()) r.cls("run:finished");
  if (returns >= 3) r.cls("run:>=3-returns");
  if (returns >= 20) r.cls("run:>=20-returns");
  if (did_reset) r.cls("run:with-reset");
  r.nontrivial = returns >= 3;
}
static Reg reg_c19({"C19", 500, prop_c19, nullptr, nullptr});

// ------------------------------------------------------------------------------------ C16 (accept direction)
static void prop_c16(Tape &t, Result &r) {
  gp::GenCfg cfg;
  cfg.loops_only = t.chance(2, 3);
  cfg.user_macros = t.chance(1, 3);  // the library macros expand to LOOPs and assignments only
  cfg.max_depth = 3;
  cfg.wide_frame = !cfg.user_macros && t.chance(1, 12);
  Case c;
  decode_case(t, cfg, false, c);
  r.sample = case_json(c);
  r.hash = glue::files_hash(c.layout.files, c.layout.main);
  add_feature_classes(c, r);
  if (cfg.loops_only) r.cls("loop-only-program");
  Theo::CodegenResult cr;
  if (!compile_case(c, cr, r, "rec")) return;
  // static: call graph over EXEC entries is acyclic
  const auto &code = cr.code.code;
  std::set<int> entries;
  for (auto &ins : code)
    if (ins.op == Theo::OpCode::EXEC) entries.insert(ins.parameters.exec.entry);
  auto routine_of = [&](int idx) {  // entry of the routine containing idx, or -1 for the root
    int best = -1;
    for (int e : entries) {
      if (e > idx) break;
      // extent: [e, first RET >= e]
      int end = e;
      while (end < (int)code.size() && code[(size_t)end].op != Theo::OpCode::RET) end++;
      if (idx <= end) best = e;
    }
    return best;
  };
  std::map<int, std::set<int>> edges;
  for (int i = 0; i < (int)code.size(); i++)
    if (code[(size_t)i].op == Theo::OpCode::EXEC) edges[routine_of(i)].insert(code[(size_t)i].parameters.exec.entry);
  {
    std::map<int, int> state;
    std::function<bool(int)> dfs = [&](int n) {
      state[n] = 1;
      for (int m : edges[n]) {
        if (state[m] == 1) return false;
        if (state[m] == 0 && !dfs(m)) return false;
      }
      state[n] = 2;
      return true;
    };
    for (auto &e : edges)
      if (state[e.first] == 0 && !dfs(e.first)) {
        r.fail("rec:cyclic-call-graph", "the EXEC graph of the emitted program has a cycle");
        return;
      }
  }
  ri::Interp in(c.prog, nullptr);
  ri::Interp::Status st = in.execute();
  size_t limit = c.prog.defs.size() + 1;
  Theo::VM vm(cr.code);
  long long budget = st == ri::Interp::DONE ? 40 * in.work + 4000 : 20000;
  long long i = 0;
  for (; i < budget && !vm.isDone(); i++) {
    vm.executeSingle();
    if (vm.getActivations().size() > limit) {
      r.fail("rec:activation-stack-too-deep", "activation stack has " + std::to_string(vm.getActivations().size()) + " entries with " +
                                                  std::to_string(c.prog.defs.size()) + " program definitions");
      return;
    }
  }
  {
    // the bound holds for every run of the machine, also a second one after reset() (from the end or from the middle
    // of the first): a copy is reset and run again
    Theo::VM again(cr.code);
    long long half = std::min<long long>(i / 2, 1500);
    for (long long k = 0; k < half && !again.isDone(); k++) again.executeSingle();
    for (int pass = 0; pass < 2; pass++) {
      again.reset();
      for (long long k = 0; k < std::min<long long>(budget, 3000) && !again.isDone(); k++) {
        again.executeSingle();
        if (again.getActivations().size() > limit) {
          r.fail("rec:activation-stack-too-deep", "after reset(): activation stack has " + std::to_string(again.getActivations().size()) +
                                                      " entries with " + std::to_string(c.prog.defs.size()) + " program definitions");
          return;
        }
      }
    }
    r.cls("rerun-after-reset");
  }
  if (cfg.loops_only) {
    if (st == ri::Interp::DIVERGED || st == ri::Interp::BIG) {
      r.discard = true;  // halts, but not within the budget this check can afford / values too big
      r.cls("loop-only:over-budget");
      return;
    }
    if (!vm.isDone()) {
      r.fail("rec:loop-program-does-not-halt", "LOOP-only program: reference halts after " + std::to_string(in.ops) +
                                                   " steps, VM still running after " + std::to_string(budget) + " instructions");
      return;
    }
    if (!compare_state(vm, cr.code, in, r, "rec", "LOOP-only program, at the end: ")) return;
    r.nontrivial = c.feat.loop_nest2 && c.gen_classes.count("loop-modifies-bound") && in.loop_iters >= 2;
    if (c.feat.loop_nest2) r.cls("loop-nesting>=2");
  } else {
    if (st == ri::Interp::DONE && vm.isDone()) r.cls("general:terminated");
    r.nontrivial = in.max_depth >= 3;
    if (in.max_depth >= 3) r.cls("call-depth>=3");
  }
}
static Reg reg_c16({"C16", 500, prop_c16, nullptr, nullptr});

// ------------------------------------------------------------------------------------ C20
static bool words_ok(Theo::VM &vm, std::string &why) {
  const auto &d = vm.verif_data();
  for (size_t i = 0; i < d.size(); i++)
    if (d[i] < 0 || d[i] > 2147483647) {  // (an int cannot exceed it; kept for clarity)
      why = "data word " + std::to_string(i) + " holds " + std::to_string(d[i]);
      return false;
    }
  return true;
}

static void prop_c20_run(Tape &t, Result &r) {
  gp::GenCfg cfg;
  cfg.big = true;
  cfg.user_macros = t.chance(1, 5);
  Case c;
  decode_case(t, cfg, false, c);
  // classic doubling: x := 1; LOOP n DO x := RUN dbl ... END is covered by macros; add an explicit doubling prefix
  r.sample = case_json(c);
  r.hash = glue::files_hash(c.layout.files, c.layout.main);
  Theo::CodegenResult cr;
  if (!compile_case(c, cr, r, "arith")) return;
  std::vector<int> finals[2];
  bool overflowed = false;
  long overflow_at = -1;
  for (int pass = 0; pass < 2; pass++) {
    Theo::VM vm(cr.code);
    std::string why;
    for (long i = 0; i < 20000 && !vm.isDone(); i++) {
      const Theo::Instruction &ins = vm.verif_code().code[(size_t)vm.verif_ip()];
      if (ins.op == Theo::OpCode::ADD_CONST && !vm.verif_frames().empty()) {
        long base = vm.verif_frames().back().data_start;
        long long m = (long long)vm.verif_data()[(size_t)(base + ins.parameters.add.source)] + ins.parameters.add.constant;
        if (m > 2147483647LL && !overflowed) {
          overflowed = true;
          overflow_at = i;
        }
      }
      vm.executeSingle();
      if (!words_ok(vm, why)) {
        r.fail("arith:value-out-of-range", "after instruction " + std::to_string(i) + ": " + why);
        return;
      }
    }
    finals[pass] = vm.verif_data();
  }
  if (finals[0] != finals[1]) {
    r.fail("arith:nondeterministic", "two runs of the same program ended with different data memory");
    return;
  }
  if (overflowed) r.cls("run:addition-exceeds-word-range");
  (void)overflow_at;
  r.nontrivial = overflowed;
}

// numeric literals of any length in every literal position
static void prop_c20_lit(Tape &t, Result &r) {
  // literal: around 2^31, or many digits
  std::string lit;
  long long base = 2147483647LL;
  bool too_big;
  switch (t.weighted({6, 2, 2, 1})) {
    case 0: {
      long long v = base + t.range(-3, 3);
      lit = std::to_string(v);
      too_big = v >= base;
      r.cls("literal:within-3-of-boundary");
      break;
    }
    case 1: {  // long digit strings
      int n = t.range(10, 40);
      lit.push_back((char)('1' + t.pick(9)));
      for (int i = 1; i < n; i++) lit.push_back((char)('0' + t.pick(10)));
      too_big = lit.size() > 10 || (lit.size() == 10 && lit >= std::string("2147483647"));
      r.cls("literal:long");
      break;
    }
    case 2: {  // powers of two and neighbours that wrap 32-bit conversions
      // values that wrap to something small under a 32- or 64-bit conversion: multiples of 2^32, 2^63, multiples of 2^64
      static const char *W[] = {"4294967296", "4294967297", "4294967295", "2147483648", "8589934592", "4294967301", "12884901888",
                                "9223372036854775807", "9223372036854775808", "9223372032559808512", "18446744073709551615",
                                "18446744073709551616", "18446744073709551621", "36893488147419103232", "92233720368547758087",
                                "340282366920938463463374607431768211456"};
      lit = W[t.pick(16)];
      too_big = true;
      r.cls("literal:wraps-32-or-64-bit");
      break;
    }
    default: {
      long long v = t.range(0, 100000);
      lit = std::to_string(v);
      too_big = false;
      r.cls("literal:small");
      break;
    }
  }
  std::string src;
  bool macro_index = false;
  switch (t.pick(7)) {
    case 0: src = "x0 := " + lit; r.cls("pos:assignment"); break;
    case 1: src = "x0 := 1; IF x0 = " + lit + " THEN GOTO e; x1 := 2; e: x2 := 3"; r.cls("pos:if-constant"); break;
    case 2: src = "PROGRAM f IN a DO x0 := a END x0 := RUN f WITH " + lit + " END"; r.cls("pos:argument"); break;
    case 3: src = "x0 := x1 + " + lit; r.cls("pos:sugar-plus"); break;
    case 4: src = "x1 := 5; x0 := x1 - " + lit; r.cls("pos:sugar-minus"); break;
    case 5: src = "DEFINE PRIO " + lit + " NOP <ID> AS $0 := $0 END DEFINE x0 := 1; NOP x0"; r.cls("pos:macro-priority"); break;
    case 6:
      src = "DEFINE TWICE <ID> AS $0 := $0; $" + lit + " := 1 END DEFINE x0 := 1; TWICE x0";
      macro_index = true;
      r.cls("pos:insertion-index");
      break;
  }
  glue::Files files{{"m", src}};
  r.sample = glue::files_json(files, "m");
  r.hash = glue::files_hash(files, "m");
  Theo::CodegenResult cr = Theo::compile(files, "m");
  bool has_range = false;
  for (auto &e : cr.errors)
    if (e.message.find("out of range") != std::string::npos) has_range = true;
  if (macro_index) {
    // the property names literals and priorities; which error an out-of-range $n gets is not specified. But a source
    // whose only use of the macro needs slot number 2^31 or more cannot be compiled as correct: the number does not fit
    // the word, and no pattern has such a slot, so whatever was inserted is not "what slot n matched" (C09)
    if (too_big && cr.generated_correctly) {
      r.fail("arith:index-not-rejected", "insertion index $" + lit + " does not fit the word, yet the program using the macro compiled correctly");
      return;
    }
    r.nontrivial = too_big;
    return;
  }
  if (too_big && (cr.generated_correctly || !has_range))
    r.fail("arith:literal-not-rejected", "literal " + lit + " does not fit the word but " +
                                             (cr.generated_correctly ? "the program compiled correctly" : "no range error was reported"));
  else if (!too_big && has_range)
    r.fail("arith:literal-wrongly-rejected", "literal " + lit + " fits the word but a range error was reported");
  else if (!too_big && !cr.generated_correctly)
    r.fail("arith:valid-literal-program-rejected", "program with in-range literal " + lit + " was rejected: " +
                                                       (cr.errors.empty() ? "" : cr.errors[0].message));
  else if (!too_big) {
    // run it: the stored constant must be the literal's value
    Theo::VM vm(cr.code);
    std::string why;
    for (long i = 0; i < 5000 && !vm.isDone(); i++) {
      vm.executeSingle();
      if (!words_ok(vm, why)) {
        r.fail("arith:value-out-of-range", why);
        return;
      }
    }
  }
  r.nontrivial = true;
}

static void prop_c20(Tape &t, Result &r) {
  if (t.chance(1, 3))
    prop_c20_lit(t, r);
  else
    prop_c20_run(t, r);
}
static Reg reg_c20({"C20", 500, prop_c20, nullptr, nullptr});

VERIF_MAIN
