// p_sem: C01 (reference semantics), C07 (stepping / variable views), C16 (no recursion, LOOP
// programs halt), C19 (frame accounting), C20 (arithmetic defined, values natural).
#include "../common/harness.hpp"
#include "../common/gen_program.hpp"
#include "../ref/ref_interp.hpp"
#include "glue.hpp"

using namespace verif;

struct Case {
  gp::Program prog;
  gp::Layout layout;
  gp::Features feat;
  std::set<std::string> gen_classes;
  int nfiles = 1;
};

static void decode_case(Tape &t, gp::GenCfg cfg, bool canonical, Case &c) {
  gp::Gen g(t, cfg);
  c.prog = g.generate();
  gp::normalise(c.prog);
  c.gen_classes = g.classes;
  c.nfiles = 1 + (int)t.weighted({5, 3, 2, 1});
  c.layout = canonical ? gp::layout_canonical(c.prog, t, c.nfiles) : gp::layout_free(c.prog, t, c.nfiles);
  c.feat = gp::features(c.prog);
}

static void add_feature_classes(const Case &c, Result &r) {
  const gp::Features &f = c.feat;
  if (f.call_in_loop) r.cls("call-in-loop");
  if (f.nested_call_arg) r.cls("nested-call-argument");
  if (f.jump_into_loop) r.cls("jump-into-loop-body");
  if (f.jump_out_of_loop) r.cls("jump-out-of-loop");
  if (f.backward_jump) r.cls("backward-jump");
  if (f.stop_in_callee) r.cls("stop-in-callee");
  if (f.macro_in_own_slot) r.cls("macro-nested-in-own-slot");
  if (c.layout.files.size() >= 2) r.cls("files>=2");
  if (c.prog.macros) r.cls("user-macros");
  for (auto &g : c.gen_classes) r.cls(g);
}

static bool user_named(const std::string &n) {
  // names no user can write: loop counters, macro temporaries, (temporaries are not in stack maps)
  if (n.empty()) return false;
  if (!(isalpha((unsigned char)n[0]) || n[0] == '_')) return false;
  for (char ch : n)
    if (!(isalnum((unsigned char)ch) || ch == '_')) return false;
  return true;
}

// compare VM activations with the reference stack; returns false and fills r on mismatch
static bool compare_state(Theo::VM &vm, const Theo::Program &code, ri::Interp &in, Result &r, const char *sigp,
                          const std::string &where) {
  auto &acts = vm.getActivations();
  auto frames = vm.verif_frames();
  if (acts.size() != in.stack.size()) {
    r.fail(std::string(sigp) + ":activation-depth",
           where + "VM has " + std::to_string(acts.size()) + " live activations, reference has " +
               std::to_string(in.stack.size()));
    return false;
  }
  for (size_t i = 0; i < acts.size(); i++) {
    const ri::Frame &rf = in.stack[i];
    int di = frames[i].debug_info;
    if (di < 0 || (size_t)di >= code.stack_maps.size()) {
      r.fail(std::string(sigp) + ":stack-map-index", where + "activation " + std::to_string(i) + " has stack map index " + std::to_string(di));
      return false;
    }
    if (code.stack_maps[(size_t)di].func_name != rf.name) {
      r.fail(std::string(sigp) + ":activation-name", where + "activation " + std::to_string(i) + " is '" +
                                                         code.stack_maps[(size_t)di].func_name + "', reference '" + rf.name + "'");
      return false;
    }
    auto view = acts[i].getActivationVariables();
    std::set<std::string> expect =
        rf.routine < 0 ? gp::main_vars(in.p) : gp::routine_vars(in.p.defs[(size_t)rf.routine]);
    for (auto &name : expect) {
      auto it = view.find(name);
      long long want = 0;
      auto rv = rf.vars.find(name);
      if (rv != rf.vars.end()) want = rv->second;
      if (it == view.end()) {
        r.fail(std::string(sigp) + ":variable-missing",
               where + "activation " + std::to_string(i) + " (" + rf.name + ") does not list variable '" + name + "'");
        return false;
      }
      if ((long long)it->second != want) {
        r.fail(std::string(sigp) + ":wrong-value", where + "activation " + std::to_string(i) + " (" + rf.name + "): " + name + " = " +
                                                       std::to_string(it->second) + ", reference " + std::to_string(want));
        return false;
      }
    }
    for (auto &e : view) {
      if (!user_named(e.first) || expect.count(e.first)) continue;
      if (e.second != 0) {
        r.fail(std::string(sigp) + ":phantom-variable", where + "activation " + std::to_string(i) + " lists user-named variable '" +
                                                            e.first + "' = " + std::to_string(e.second) + " that the routine never mentions");
        return false;
      }
    }
  }
  return true;
}

static J case_json(const Case &c) {
  J j = glue::files_json(c.layout.files, c.layout.main);
  return j;
}

static bool compile_case(const Case &c, Theo::CodegenResult &cr, Result &r, const char *sigp) {
  cr = Theo::compile(c.layout.files, c.layout.main);
  if (!cr.generated_correctly) {
    std::string m = cr.errors.empty() ? "(no error)" : cr.errors[0].message + " @" + cr.errors[0].file + ":" + std::to_string(cr.errors[0].line);
    r.fail(std::string(sigp) + ":wellformed-source-rejected", "generated well-formed source was rejected: " + m);
    return false;
  }
  return true;
}

// ------------------------------------------------------------------------------------ C01
static void prop_c01(Tape &t, Result &r) {
  gp::GenCfg cfg;
  cfg.user_macros = t.chance(1, 2);
  cfg.force_call_in_loop = t.chance(1, 6);
  Case c;
  decode_case(t, cfg, false, c);
  r.sample = case_json(c);
  r.hash = glue::files_hash(c.layout.files, c.layout.main);
  add_feature_classes(c, r);
  Theo::CodegenResult cr;
  if (!compile_case(c, cr, r, "sem")) return;
  ri::Interp in(c.prog, nullptr);
  ri::Interp::Status st = in.execute();
  if (st == ri::Interp::BIG) {
    r.discard = true;
    r.cls("ref:big-values(->C20)");
    return;
  }
  Theo::VM vm(cr.code);
  if (st == ri::Interp::DIVERGED) {
    r.cls("ref:diverged");
    long long n = in.ops - 1;
    for (long long i = 0; i < n && !vm.isDone(); i++) vm.executeSingle();
    if (vm.isDone()) {
      r.fail("sem:halts-but-reference-diverges",
             "reference needs more than " + std::to_string(n) + " micro-steps, the VM finished within as many instructions");
      return;
    }
    r.nontrivial = false;
    return;
  }
  r.cls("ref:terminated");
  long long budget = 40 * in.work + 4000;
  long long i = 0;
  for (; i < budget && !vm.isDone(); i++) vm.executeSingle();
  if (!vm.isDone()) {
    r.fail("sem:vm-does-not-halt", "reference finished after " + std::to_string(in.ops) + " micro-steps (work " + std::to_string(in.work) +
                                       "), VM still running after " + std::to_string(budget) + " instructions");
    return;
  }
  if (!compare_state(vm, cr.code, in, r, "sem", "at the end: ")) return;
  r.nontrivial = in.loop_iters >= 1 || in.calls >= 1 || in.jumps_taken >= 1;
  if (in.calls) r.cls("run:calls");
  if (in.loop_iters) r.cls("run:loop-iterations");
  if (in.jumps_taken) r.cls("run:jumps-taken");
  if (in.stack.size() > 1) r.cls("run:stopped-inside-callee");
}
static Reg reg_c01({"C01", 500, prop_c01, nullptr, nullptr});

VERIF_MAIN
