// p_accept: C04 (the compiler accepts exactly the language) and the reject direction of C16
// (self / forward / mutual references between program definitions).
#include "../common/gen_mut.hpp"
#include "../common/gen_program.hpp"
#include "../common/harness.hpp"
#include "../ref/ref_accept.hpp"
#include "glue.hpp"

using namespace verif;

static std::string first_error(const Theo::CodegenResult &cr) {
  if (cr.errors.empty()) return "(none)";
  return cr.errors[0].message + " @" + cr.errors[0].file + ":" + std::to_string(cr.errors[0].line);
}

static void judge_c04(const glue::Files &files, const std::string &main, bool mutated, Result &r) {
  r.sample = glue::files_json(files, main);
  r.hash = glue::files_hash(files, main);
  ra::Verdict v = ra::judge_source(files, main);
  if (v.open) {
    r.discard = true;
    r.cls("open:" + v.open_reason);
    return;
  }
  Theo::CodegenResult cr = Theo::compile(files, main);
  if (cr.generated_correctly != cr.errors.empty()) {
    r.fail("accept:flag-error-mismatch", "generated_correctly and the error list disagree");
    return;
  }
  if (v.accept && !cr.generated_correctly) {
    r.fail("accept:valid-source-rejected", "the documented grammar and static rules accept this source, the compiler reports: " + first_error(cr));
    return;
  }
  if (!v.accept && cr.generated_correctly) {
    r.fail("accept:invalid-source-accepted", "the compiler accepted a source the reference rejects (" + v.reason + ")");
    return;
  }
  if (v.accept) {
    r.cls("verdict:accepted");
    if (mutated) r.cls("accepted-after-mutation");
    if (v.sugar_uses) r.cls("uses-sugar");
    r.nontrivial = mutated;
  } else {
    r.cls("verdict:rejected");
    if (v.reason.rfind("syntax", 0) == 0)
      r.cls("rejected:syntax");
    else if (v.reason.rfind("scan", 0) == 0)
      r.cls("rejected:scan");
    else if (v.reason.rfind("call", 0) == 0)
      r.cls("rejected:call-rule");
    else if (v.reason.rfind("jump", 0) == 0)
      r.cls("rejected:jump-rule");
    else if (v.reason.rfind("literal", 0) == 0)
      r.cls("rejected:literal-range");
    r.nontrivial = v.ntokens >= 3;
  }
}

static void prop_c04(Tape &t, Result &r) {
  // high-level choices first, long choice streams derived (see tape.hpp)
  unsigned mode = t.weighted({3, 6, 1});
  int nfiles = t.chance(1, 5) ? 2 : 1;
  int nedits = 1 + (int)t.weighted({5, 3, 2, 1});
  std::vector<uint8_t> lbytes = derive_bytes(t.u32(), 4096), ebytes = derive_bytes(t.u32() ^ 0x5bd1e995u, 256);
  Tape lt(lbytes), et(ebytes);
  gp::GenCfg cfg;
  cfg.user_macros = false;
  cfg.max_stmts = 25;
  gp::Gen g(t, cfg);
  gp::Program p = g.generate();
  gp::normalise(p);
  gp::Layout L = gp::layout_free(p, lt, nfiles);
  if (L.blank_includes) r.cls("layout:include-of-a-file-without-tokens");
  if (L.body_includes) r.cls("layout:include-inside-a-macro-body");
  if (L.main.rfind("__", 0) == 0) r.cls("layout:file-names-starting-with-__");
  if (L.main.rfind("Cc/", 0) == 0) r.cls("layout:file-names-differing-in-case-only");
  glue::Files files = L.files;
  bool mutated = false;
  if (mode == 1) {
    std::vector<std::string> toks = gm::texts_of(files[L.main]);
    for (int i = 0; i < nedits; i++) gm::apply_edit(toks, gm::random_edit(et, toks, false));
    if (et.chance(1, 8)) {
      // one more statement: a call of a program that is defined nowhere, under a name that looks reserved, with the
      // argument shapes of the built-in sugar (identifier, literal) and others
      static const char *UNDEF[] = {"__nope", "__f2", "__INC", "_x"};
      static const char *ARGS[] = {"x1 , 1", "x1 , 1", "x1", "", "1 , x1", "x1 , 1 , 2"};
      for (const char *k : {";", "x0", ":=", "RUN"}) toks.push_back(k);
      toks.push_back(UNDEF[et.pick(4)]);
      toks.push_back("WITH");
      for (auto &a : gm::texts_of(ARGS[et.pick(6)])) toks.push_back(a);
      toks.push_back("END");
      r.cls("gen:call-of-undefined-__name");
    }
    files[L.main] = gm::join(toks, 1 + et.pick(9));
    mutated = true;
    r.cls("gen:" + std::to_string(nedits) + "-edits");
  } else if (mode == 2) {
    files.clear();
    files[L.main] = gm::soup(t, false);
    mutated = true;
    r.cls("gen:token-soup");
  } else if (et.chance(1, 12)) {
    // a long statement sequence (the grammar is right-recursive in MOREP: every ';' is one level of descent)
    int n = 250 + (int)et.pick(200);
    std::string src = "x1 := 2;\nLOOP x1 DO\n";
    for (int i = 0; i < n; i++) src += "x" + std::to_string(i % 3) + " := x" + std::to_string((i + 1) % 3) + (i % 40 ? "" : " + 1") + ";\n";
    src += "x2 := 0 END";
    if (et.chance(1, 3)) src += ";";  // excess semicolon: not a sentence
    files.clear();
    files[L.main] = src;
    mutated = true;
    r.cls("gen:long-statement-sequence");
  } else
    r.cls("gen:unmutated");
  judge_c04(files, L.main, mutated, r);
}

// enumeration: every single-token deletion / replacement / insertion / adjacent swap of fixed base programs
static const char *BASES[] = {
    "PROGRAM f IN a, b OUT r DO r := a; LOOP b DO r := r + 1 END END x0 := RUN f WITH 2, 3 END; IF x0 = 5 THEN GOTO e; x1 := 1; e: STOP",
    "x0 := 3; WHILE x0 != 0 DO x1 := x1 + 2; x0 := x0 - 1 END; l: x2 := RUN __INC__ WITH x1, 1 END",
    "PROGRAM g DO x0 := 7 END PROGRAM h IN n DO x0 := RUN g WITH END; LOOP n DO x0 := x0 + 1 END END a: b: x1 := RUN h WITH RUN g WITH END END; GOTO a",
};

static void enum_c04(Runner &run, int shard, int nshards, const std::string &tier) {
  unsigned long idx = 0;
  size_t nbases = tier == "thorough" ? 3 : 2;
  std::vector<std::string> ins = gm::vocab_lang();
  if (tier == "thorough")
    for (auto &j : gm::vocab_junk()) ins.push_back(j);
  for (size_t b = 0; b < nbases; b++) {
    std::vector<std::string> base = gm::texts_of(BASES[b]);
    auto one = [&](const std::vector<std::string> &toks) {
      if ((long)(idx++ % (unsigned long)nshards) != shard) return;
      glue::Files files{{"m", gm::join(toks, 9)}};
      run.journal_case(glue::files_json(files, "m"));
      Result r;
      judge_c04(files, "m", true, r);
      r.cls("enum:single-edit");
      run.record(r);
    };
    one(base);
    for (size_t i = 0; i < base.size() && !run.stop_enumeration(); i++) {
      {
        auto v = base;
        v.erase(v.begin() + (long)i);
        one(v);
      }
      if (i + 1 < base.size()) {
        auto v = base;
        std::swap(v[i], v[i + 1]);
        one(v);
      }
      {
        auto v = base;
        v.resize(i);
        one(v);
      }
      for (auto &tok : ins) {
        auto v = base;
        v[i] = tok;
        one(v);
        auto w = base;
        w.insert(w.begin() + (long)i, tok);
        one(w);
      }
    }
  }
}

static void json_c04(const J &c, Result &r) {
  glue::Files files;
  std::string main;
  glue::files_from_json(c, files, main);
  judge_c04(files, main, true, r);
}
static Reg reg_c04({"C04", 500, prop_c04, enum_c04, json_c04});

// ------------------------------------------------------------------------------------ C16 reject direction
static void judge_c16r(const glue::Files &files, const std::string &main, Result &r) {
  r.sample = glue::files_json(files, main);
  r.hash = glue::files_hash(files, main);
  ra::Verdict v = ra::judge_source(files, main);
  if (v.open) {
    r.discard = true;
    return;
  }
  Theo::CodegenResult cr = Theo::compile(files, main);
  if (v.accept && !cr.generated_correctly) {
    r.fail("rec:legal-reference-rejected", "every call names a complete earlier definition, yet the compiler reports: " + first_error(cr));
    return;
  }
  if (!v.accept && cr.generated_correctly) {
    r.fail("rec:illegal-reference-accepted", "accepted although: " + v.reason);
    return;
  }
  if (!v.accept && v.reason.rfind("call of", 0) == 0 && v.reason.find("no complete earlier definition") != std::string::npos) {
    // (rejection is what the property demands; which error type says so is the implementation's choice)
    bool unk = false;
    for (auto &e : cr.errors)
      if (e.t == Theo::CodegenResult::Error::Type::UNKNOWN_PROGRAM_NAME) unk = true;
    if (unk) r.cls("reported-as-unknown-program");
    r.cls(v.reference_attempt ? "rejected:self/forward/mutual-reference" : "rejected:undefined-name");
    r.nontrivial = v.reference_attempt;
  } else if (v.accept) {
    r.cls("accepted:all-references-backward");
    r.nontrivial = false;
  } else
    r.cls("rejected:other");
}

static void prop_c16r(Tape &t, Result &r) {
  static const char *N[] = {"f", "g", "h"};
  int k = t.range(1, 4);
  std::vector<std::string> names;
  for (int i = 0; i < k; i++) names.push_back(N[t.pick(3)]);
  glue::Files files;
  std::string maintext;
  bool split = t.chance(1, 3);
  // number of parameters per definition (0, 1 or 2) and of arguments per call: usually the callee's (by name: the
  // last arity chosen for that name), sometimes none at all or one too many
  std::vector<int> arity;
  for (int i = 0; i < k; i++) arity.push_back((int)t.weighted({2, 5, 2}));
  auto args = [&](const std::string &callee, const std::string &first) {
    int n = 1;
    for (int j = 0; j < k; j++)
      if (names[(size_t)j] == callee) n = arity[(size_t)j];
    switch (t.weighted({6, 2, 1})) {
      case 1: n = 0; break;
      case 2: n++; break;
      default: break;
    }
    std::string a;
    for (int j = 0; j < n; j++) a += (j ? ", " : "") + (j ? std::string("x1") : first);
    return a.empty() ? std::string(" ") : " " + a + " ";
  };
  for (int i = 0; i < k; i++) {
    // call target: self, later, earlier, undefined, none
    std::string callee;
    switch (t.weighted({2, 3, 3, 1, 2})) {
      case 0: callee = names[(size_t)i]; break;
      case 1: callee = names[(size_t)std::min(k - 1, i + 1 + (int)t.pick(2))]; break;
      case 2: callee = names[(size_t)(i ? t.pick((unsigned)i) : 0)]; break;
      case 3: callee = "nowhere"; break;
      default: break;
    }
    std::string body = "x0 := a";
    if (!callee.empty()) {
      switch (t.pick(3)) {
        case 0: body = "x0 := RUN " + callee + " WITH" + args(callee, "a") + "END"; break;
        case 1: body = "LOOP a DO x0 := RUN " + callee + " WITH" + args(callee, "RUN " + callee + " WITH" + args(callee, "x0") + "END") + "END END"; break;
        case 2: body = "x1 := a + 1; IF a = 0 THEN GOTO e; x0 := RUN " + callee + " WITH" + args(callee, "a - 1") + "END; e: x0 := x0 + 1"; break;
      }
    }
    static const char *PORTS[] = {" ", " IN a ", " IN a, b "};
    std::string def = "PROGRAM " + names[(size_t)i] + PORTS[arity[(size_t)i]] + "DO " + body + " END\n";
    if (split && t.chance(1, 2)) {
      std::string fn = "def" + std::to_string(i) + ".theo";
      files[fn] = def;
      maintext += "include \"" + fn + "\"\n";
    } else
      maintext += def;
  }
  std::string target = t.chance(1, 8) ? "nowhere" : names[t.pick((unsigned)k)];
  maintext += "x0 := RUN " + target + " WITH" + args(target, "3") + "END\n";
  files["main.theo"] = maintext;
  if (split) r.cls("definitions-in-included-files");
  std::set<std::string> uniq(names.begin(), names.end());
  if (uniq.size() < names.size()) r.cls("redefinition");
  judge_c16r(files, "main.theo", r);
}
static void json_c16r(const J &c, Result &r) {
  glue::Files files;
  std::string main;
  glue::files_from_json(c, files, main);
  judge_c16r(files, main, r);
}
static Reg reg_c16r({"C16", 200, prop_c16r, nullptr, json_c16r});

VERIF_MAIN
