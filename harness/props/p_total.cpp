// p_total: C02 - compilation is total: every input yields a result, never a crash or a hang,
// and the result has the stated shape.
#include "../common/gen_mut.hpp"
#include "../common/gen_program.hpp"
#include "../common/harness.hpp"
#include "../ref/ref_accept.hpp"
#include "glue.hpp"

#if defined(__SANITIZE_ADDRESS__)
#include <sanitizer/lsan_interface.h>
#define HAVE_LSAN 1
#else
#define HAVE_LSAN 0
#endif

using namespace verif;

static int count_lines(const std::string &s) {
  int n = 1;
  for (char c : s)
    if (c == '\n') n++;
  return n;
}

static const char *STANDARDS =
    "DEFINE PRIO 1000000 <ID> + <INT> AS RUN __INC__ WITH $0, $1 END END DEFINE\n"
    "DEFINE PRIO 1000000 <ID> - <INT> AS RUN __DEC__ WITH $0, $1 END END DEFINE\n  ";

static unsigned long g_cases = 0;

static void judge_c02(const glue::Files &files, const std::string &main, Result &r) {
  r.sample = glue::files_json(files, main);
  r.hash = glue::files_hash(files, main);
  // Pre-screen: compile() always grants 1024 macro rewrites, each of which rescans the whole stream, so a
  // self-reproducing macro with a growing body costs minutes (bounded, but outside what a check can
  // afford per case). The expansion is first run with budgets 3..48; if it is still changing and the
  // projected stream exceeds 1500 tokens the full compile is skipped and counted (C11 covers divergence
  // with explicit budgets). scan/extract/apply run under the same sanitizers, so they are still exercised.
  {
    glue::Files f2 = files;
    Theo::ScanResult sr = Theo::scan(f2, main);
    Theo::MacroExtractionResult mer = Theo::extract_macros(sr.toks);
    // budgets grow geometrically and the probe stops as soon as the stream is large: a slot-duplicating
    // self-reproducing body grows the stream exponentially in the number of passes (known finding F11)
    bool still = false;
    size_t size = mer.tokens.size();
    unsigned used = 0;
    for (unsigned b : {3u, 6u, 12u, 24u, 48u}) {
      Theo::MacroApplicationResult mar = Theo::apply_macros(mer.tokens, mer.macros, b);
      still = false;
      for (auto &e : mar.errors)
        if (e.t == Theo::ParseError::MACRO_APPLY_REACHED_MAX_PASSES) still = true;
      size = mar.transformed_sequence.size();
      used = b;
      if (!still || size > 1500) break;
    }
    if (still) {
      double growth = ((double)size - (double)mer.tokens.size()) / (double)used;
      double projected = (double)mer.tokens.size() + 1024.0 * std::max(0.0, growth);
      r.cls("expansion-still-running-at-probe-budget");
      if (size > 1500 || projected > 1500) {
        r.discard = true;
        r.cls("skipped:divergent-growing-expansion");
        return;
      }
    }
  }
  Theo::CodegenResult cr = Theo::compile(files, main);
  // shape: correct <=> no errors
  if (cr.generated_correctly && !cr.errors.empty()) {
    r.fail("total:correct-with-errors", "result is marked correct but lists " + std::to_string(cr.errors.size()) + " errors");
    return;
  }
  if (!cr.generated_correctly && cr.errors.empty()) {
    r.fail("total:incorrect-without-error", "result is marked incorrect but lists no error");
    return;
  }
  size_t located = 0;
  if (!cr.generated_correctly) {
    bool good = false;
    for (auto &e : cr.errors) {
      bool ok = !e.message.empty();
      if (e.file == "-")
        ok = ok && e.line == -1;
      else if (e.file == "__standards__") {
        auto own = files.find("__standards__");  // a caller-supplied file of that name replaces the hidden one
        ok = ok && e.line >= 1 && e.line <= count_lines(own != files.end() ? own->second : std::string(STANDARDS));
      }
      else {
        auto it = files.find(e.file);
        // the main file gets the hidden include directive prepended on its first line: lines are unchanged
        ok = ok && it != files.end() && e.line >= 1 && e.line <= count_lines(it->second);
      }
      if (ok) {
        good = true;
        located++;
      }
    }
    if (!good) {
      std::string ex = cr.errors[0].message + " @" + cr.errors[0].file + ":" + std::to_string(cr.errors[0].line);
      r.fail("total:no-located-error",
             "none of the " + std::to_string(cr.errors.size()) + " errors has a non-empty message and a location inside a supplied file; first: " + ex);
      return;
    }
    if (located == cr.errors.size()) r.cls("all-errors-located");
  }
  // work bound: emitted code is bounded by the token count and the macro pass budget
  size_t total_tokens = 0, maxbody = 16;
  for (auto &f : files) {
    auto toks = ref::lex_text(f.second, f.first);
    total_tokens += toks.size();
    size_t body = 0;
    bool in_body = false;
    for (auto &tk : toks) {
      if (tk.k == ref::K::AS) in_body = true, body = 0;
      if (tk.k == ref::K::END_DEFINE) in_body = false, maxbody = std::max(maxbody, body);
      if (in_body) body++;
    }
    if (in_body) maxbody = std::max(maxbody, body);
  }
  // the token stream after include splicing (a file may be included several times) is the input size
  total_tokens = ref::scan(files, main).toks.size() + 16;
  size_t bound = 64 + 64 * (total_tokens + 1024 * maxbody);  // generous: any linear code generator stays below
  if (cr.code.code.size() > bound) {
    r.fail("total:output-not-bounded", "emitted " + std::to_string(cr.code.code.size()) + " instructions for " + std::to_string(total_tokens) +
                                           " tokens (bound " + std::to_string(bound) + ")");
    return;
  }
#if HAVE_LSAN
  if ((++g_cases % 128) == 0 && __lsan_do_recoverable_leak_check()) {
    r.fail("total:leak", "LeakSanitizer reports leaked memory after compile() (one of the last 128 cases)");
    return;
  }
#else
  ++g_cases;
#endif
  // classes / non-trivial
  ra::Verdict v = ra::judge_source(files, main);
  bool has_define = false;
  for (auto &f : files)
    for (auto &tk : ref::lex_text(f.second, f.first))
      if (tk.k == ref::K::DEFINE) has_define = true;
  if (has_define) r.cls("has-macro-definition");
  if (!files.count(main)) r.cls("absent-main");
  if (cr.generated_correctly)
    r.cls("accepted");
  else
    r.cls("rejected");
  if (!cr.file_requests.empty()) r.cls("file-requests");
  r.nontrivial = (!cr.generated_correctly && v.ntokens >= 3) || has_define;
}

static std::string raw_bytes(Tape &t, int maxn) {
  std::string s;
  int n = t.range(0, maxn);
  for (int i = 0; i < n; i++) s.push_back((char)t.byte());
  return s;
}

static const char *TRUNCATED[] = {
    "x0 := RUN f WITH a,",
    "x0 := RUN f WITH a, END",
    "PROGRAM f DO x0 := 1 END x0 := RUN f WITH END",
    "PROGRAM f",
    "PROGRAM f IN",
    "PROGRAM f IN a OUT",
    "DEFINE",
    "DEFINE PRIO",
    "DEFINE PRIO 5 <V> ! <V>",
    "DEFINE A <ID> AS",
    "DEFINE A <ID> AS $0 := 1",
    "DEFINE AS END DEFINE x0 := 1",
    "DEFINE DEFINE X AS AS y END DEFINE x0 := 1",
    "DEFINE Q <ID> AS $7 := 1 END DEFINE Q x0",
    "x0 := $0",
    "x0 := #1; #1 := 2",
    "<P>",
    "LOOP x0 DO",
    "WHILE x0 != 0 DO x0 := x0 - 1",
    "IF x0 = THEN GOTO l",
    "x0 := 99999999999999999999",
    "x0 := x1 - 2147483648",
    "x0 := x1 + 4294967296",
    "DEFINE PRIO 99999999999 F <ID> AS $0 := 0 END DEFINE F x0",
    "include",
    "include \"",
    "include \"nofile\"",
    "l: l: GOTO l",
    "GOTO nowhere",
    "x0 := 1;",
    ";",
    "END",
    "x0 := 1 END DEFINE",
    "x0 := RUN __INC__ WITH 1, 2 END",
    "x0 := RUN __INC__ WITH x0 END",
    "DEFINE <P> AS x0 := 1 END DEFINE x1 := 2",
    "DEFINE X <P> ; AS $0 END DEFINE X x1 := 2 ;",
    "DEFINE LOOPX <ID> AS LOOPX $0 END DEFINE LOOPX a",
};

static void prop_c02(Tape &t, Result &r) {
  unsigned mode = t.weighted({4, 3, 3, 2, 2, 2});
  int nedits = 1 + (int)t.weighted({5, 3, 2, 1});
  std::vector<uint8_t> lbytes = derive_bytes(t.u32(), 4096), ebytes = derive_bytes(t.u32() ^ 0x9e3779b9u, 512);
  Tape lt(lbytes), et(ebytes);
  glue::Files files;
  std::string main = "main.theo";
  switch (mode) {
    case 0: {  // neighbours of generated programs (with macros, several files)
      gp::GenCfg cfg;
      cfg.user_macros = t.chance(1, 2);
      cfg.max_stmts = 25;
      gp::Gen g(t, cfg);
      gp::Program p = g.generate();
      gp::normalise(p);
      int nfiles = 1 + (int)et.weighted({4, 2, 1});
      gp::Layout L = gp::layout_free(p, lt, nfiles);
      files = L.files;
      main = L.main;
      // edit one of the files
      std::vector<std::string> names;
      for (auto &f : files) names.push_back(f.first);
      std::string victim = names[et.pick((unsigned)names.size())];
      std::vector<std::string> toks = gm::texts_of(files[victim]);
      // texts_of drops include directives' structure? no: include and the quoted name are tokens and are kept
      for (int i = 0; i < nedits; i++) gm::apply_edit(toks, gm::random_edit(et, toks, true));
      files[victim] = gm::join(toks, 1 + et.pick(9));
      r.cls("gen:program-neighbour");
      break;
    }
    case 1:
      files[main] = gm::soup(t, true, 60);
      if (t.chance(1, 3)) files["part1.theo"] = gm::soup(t, true, 20);
      r.cls("gen:token-soup");
      break;
    case 2:
      files[main] = raw_bytes(t, 120);
      if (t.chance(1, 3)) files["b"] = raw_bytes(t, 40);
      r.cls("gen:raw-bytes");
      break;
    case 3: {  // the named shapes, alone or embedded in soup
      std::string s = TRUNCATED[t.pick(sizeof TRUNCATED / sizeof *TRUNCATED)];
      if (t.chance(1, 3)) s = gm::soup(t, true, 8) + " " + s;
      if (t.chance(1, 3)) s += " " + gm::soup(t, true, 8);
      files[main] = s;
      r.cls("gen:truncated-construct");
      break;
    }
    case 4: {  // broken file maps
      switch (t.pick(6)) {
        case 0: main = "absent"; files["other"] = "x0 := 1"; break;
        case 1: files[main] = ""; break;
        case 2: files[""] = "x0 := 1"; main = ""; break;
        case 3: files[main] = "include \"main.theo\" x0 := 1"; break;
        case 4: files[main] = "include \"a\" x0 := 1"; files["a"] = "include \"b\""; files["b"] = "include \"a\" include \"zz\""; break;
        case 5: break;  // empty map
      }
      if (t.chance(1, 4)) {  // a caller-supplied file with the hidden file's name
        files["__standards__"] = t.chance(1, 2) ? gm::soup(t, true, 20) : std::string("\n\nDEFINE PRIO 7 <ID> + <INT> AS $0 END DEFINE\n");
        if (files.count(main) && t.chance(1, 2)) files[main] += "\nx0 := x1 + 1; LOOP x1 + 1 DO x2 := x2 - 1 END";
      }
      r.cls("gen:broken-file-map");
      break;
    }
    case 5: {  // macro-heavy soup: DEFINE ... AS ... END DEFINE with random pattern/body, then uses
      std::string s;
      int nd = 1 + (int)t.pick(3);
      for (int d = 0; d < nd; d++) {
        s += "DEFINE ";
        if (t.chance(1, 3)) s += "PRIO " + std::to_string(t.pick(40)) + " ";
        int np = 1 + (int)t.pick(5);
        for (int i = 0; i < np; i++) s += gm::pick_token(t, false) + " ";
        s += "AS ";
        int nb = (int)t.pick(7);
        for (int i = 0; i < nb; i++) s += gm::pick_token(t, false) + " ";
        s += "END DEFINE\n";
      }
      s += gm::soup(t, false, 30);
      files[main] = s;
      r.cls("gen:macro-soup");
      break;
    }
  }
  judge_c02(files, main, r);
}

// enumeration: every single-token deletion / insertion / swap / truncation of fixed valid programs
static const char *BASES[] = {
    "DEFINE PRIO 5 <V> ! <V> AS RUN f WITH $0, $1 END END DEFINE\n"
    "PROGRAM f IN a, b OUT r DO r := a; LOOP b DO r := r + 1 END END\n"
    "x0 := 2 ! 3; IF x0 = 5 THEN GOTO e; x1 := x0 - 1; e: STOP",
    "DEFINE TWICE <P> END AS $0; $0 END DEFINE DEFINE ZERO <ID> AS #0 := 0; $0 := #0 END DEFINE\n"
    "x0 := 3; WHILE x0 != 0 DO TWICE x1 := x1 + 1 END; x0 := x0 - 1 END; ZERO x2",
    "include \"lib\" x1 := RUN g WITH RUN g WITH 1 END END",
};

static void enum_c02(Runner &run, int shard, int nshards, const std::string &tier) {
  unsigned long idx = 0;
  std::vector<std::string> ins = gm::vocab_lang();
  for (auto &j : gm::vocab_junk()) ins.push_back(j);
  for (auto &j : gm::vocab_meta()) ins.push_back(j);
  size_t stride = tier == "thorough" ? 1 : 3;  // quick: every third insertion token per position
  for (size_t b = 0; b < 3; b++) {
    std::vector<std::string> base = gm::texts_of(BASES[b]);
    auto one = [&](const std::vector<std::string> &toks) {
      if ((long)(idx++ % (unsigned long)nshards) != shard) return;
      glue::Files files{{"m", gm::join(toks, 9)}, {"lib", "PROGRAM g IN n DO x0 := n + 1 END"}};
      run.journal_case(glue::files_json(files, "m"));
      Result r;
      judge_c02(files, "m", r);
      r.cls("enum:single-edit");
      run.record(r);
    };
    one(base);
    for (size_t i = 0; i <= base.size() && !run.stop_enumeration(); i++) {
      if (i < base.size()) {
        auto v = base;
        v.erase(v.begin() + (long)i);
        one(v);
      }
      if (i + 1 < base.size()) {
        auto v = base;
        std::swap(v[i], v[i + 1]);
        one(v);
      }
      {
        auto v = base;
        v.resize(i);
        one(v);
      }
      for (size_t k = (i % stride); k < ins.size(); k += stride) {
        auto w = base;
        w.insert(w.begin() + (long)i, ins[k]);
        one(w);
      }
    }
  }
}

static void json_c02(const J &c, Result &r) {
  glue::Files files;
  std::string main;
  if (c.has("probe")) {
    // deterministic probes for recorded findings: the input is generated here, compile() must return normally
    const std::string &kind = c.at("probe").s;
    long n = c.has("n") ? (long)c.at("n").i() : 100000;
    std::string src;
    if (kind == "deep-statement-sequence") {
      for (long i = 0; i < n; i++) src += "x0 := 1;\n";
      src += "x0 := 2";
    } else if (kind == "deep-macro-definition") {
      src = "DEFINE A";
      for (long i = 0; i < n; i++) src += " x";
      src += " AS y END DEFINE x0 := 1";
    } else if (kind == "macro-bomb") {
      src = "DEFINE BOMB <V> ! AS BOMB RUN f WITH $0 , $0 END ! END DEFINE\nx0 := 1; BOMB 1 !";
    }
    files["m"] = src;
    Theo::CodegenResult cr = Theo::compile(files, "m");
    r.sample = c;
    if (cr.generated_correctly != cr.errors.empty()) r.fail("total:flag-error-mismatch", "probe: flag and error list disagree");
    return;
  }
  glue::files_from_json(c, files, main);
  judge_c02(files, main, r);
}
static Reg reg_c02({"C02", 600, prop_c02, enum_c02, json_c02});

VERIF_MAIN
